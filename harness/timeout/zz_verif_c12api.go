//go:build verif

package timeout

import "time"

// C12 / C13, API-level harnesses (they use the package's policy fields and worker count, but not the
// representation of the queue or of a future).

const zzMaxD2 = int64(1) << 40

type zzCallRec struct {
	never       bool
	fu          Future
	due         time.Time
	started     int
	cancelEarly bool
	cancelled   bool
	done        chan struct{}
}

// real worker goroutines under the engine's scheduler, symbolic clock, timers as environment
func zzC12Sched() {
	NC := vParam("NC")
	idle := vInt64("idle")
	vAssume(idle >= 1 && idle <= zzMaxD2)
	cc.idleTimeout = time.Duration(idle)
	cc.maxWorkers = vConcrete(vRange("maxWorkers", vParam("MWMIN"), vParam("MW")))
	vGuardedBy(cc.futures, &cc.lock)
	vGuardedBy(&cc.watchers, &cc.lock)
	recs := make([]*zzCallRec, NC)
	for i := 0; i < NC; i++ {
		r := &zzCallRec{done: make(chan struct{})}
		recs[i] = r
		var d int64
		if vParam("BURST") == 1 && i < NC-1 {
			// a burst of futures that are due at once (it brings up the helper workers), then one symbolic delay
			d = 0
		} else {
			d = vInt64("delay")
			vAssume(d >= -8 && d <= zzMaxD2)
		}
		if vParam("NEVER") == 1 && vChoose("never", 2) == 1 {
			d = 1<<63 - 1 // the usual "never" idiom: time.Duration(math.MaxInt64)
			r.never = true
		}
		t0 := time.Now()
		r.due = t0.Add(time.Duration(d))
		r.fu = Call(func() {
			t := time.Now()
			r.started++
			vAssert(r.started == 1, "a scheduled function was started more than once")
			vAssert(!t.Before(r.due), "a scheduled function was started earlier than its delay after the call")
			vAssert(!r.cancelEarly, "a function was started although Cancel had returned before it was due")
			vAssert(cc.watchers >= 1 && cc.watchers <= cc.maxWorkers, "worker count outside [1, maxWorkers] while a callback runs")
			close(r.done)
		}, time.Duration(d))
		// the bookkeeping of a future, too, is only touched under the package lock
		vGuardedBy(&r.fu.(*future).idx, &cc.lock)
		// optionally let this one fire before the script goes on: a later Cancel of the spent handle must be a no-op
		if vParam("WAITFIRED") == 1 && i < NC-1 && !r.never && vChoose("waitFired", 2) == 1 {
			<-r.done
		}
		// optionally cancel one of the futures scheduled so far (possibly repeatedly, possibly after it fired)
		if vParam("CANCEL") == 1 && vChoose("cancel", 2) == 1 {
			j := vChoose("which", i+1)
			recs[j].fu.Cancel()
			t := time.Now()
			recs[j].cancelled = true
			if t.Before(recs[j].due) && recs[j].started == 0 {
				recs[j].cancelEarly = true
			}
		}
	}
	vReach("script-done")
	// C13: every future that was not cancelled is eventually started (otherwise: deadlock); a "never" future is
	// cancelled once everything else has fired - it must not have been started and must not have held up the others
	for _, r := range recs {
		if !r.cancelled && !r.never {
			<-r.done
		}
	}
	for _, r := range recs {
		if r.never && !r.cancelled {
			vAssert(r.started == 0, "a future scheduled 'never' (MaxInt64 delay) was started")
			r.fu.Cancel()
			r.cancelled = true
			r.cancelEarly = true
		}
	}
	vReach("all-fired")
	// C13: with nothing pending the package winds down to zero workers
	vWaitOthers()
	cc.lock.Lock()
	vAssert(cc.watchers == 0, "worker count is not zero after all workers exited")
	vAssert(cc.futures.Len() == 0, "futures left in the queue at quiescence")
	cc.lock.Unlock()
	for _, r := range recs {
		vAssert(r.started <= 1, "a scheduled function was started more than once")
		if r.cancelEarly {
			vAssert(r.started == 0, "a function cancelled before it was due was started")
		}
		if !r.cancelled {
			vAssert(r.started == 1, "a live future never fired")
		}
	}
	// and it starts up again on the next Call
	if vParam("RESTART") == 1 {
		again := make(chan struct{})
		Call(func() { close(again) }, time.Duration(1))
		<-again
	}
	vReach("restarted")
}

// C13: wind-down. A worker with nothing to do returns after at most two idle timer expiries and the worker
// count drops to zero; a Call with no worker alive starts exactly one.
func zzC13WindDown() {
	idle := vInt64("idle")
	vAssume(idle >= 1 && idle <= zzMaxD2)
	cc.idleTimeout = time.Duration(idle)
	cc.maxWorkers = []int{1, 2, 10}[vChoose("maxWorkers", 3)]
	vAssert(cc.watchers == 0 && cc.futures.Len() == 0, "package does not start idle")
	fired := make(chan struct{})
	d := vInt64("delay")
	vAssume(d >= -8 && d <= zzMaxD2)
	Call(func() {
		vAssert(cc.watchers == 1, "a Call with no worker alive must start exactly one worker")
		close(fired)
	}, time.Duration(d))
	<-fired
	vReach("fired")
	vWaitOthers()
	vAssert(cc.watchers == 0, "worker count is not zero after the idle worker exited")
	vReach("wound-down")
	// and it starts up again on the next Call
	again := make(chan struct{})
	Call(func() {
		vAssert(cc.watchers == 1, "a Call after wind-down must start exactly one worker")
		close(again)
	}, time.Duration(d))
	<-again
	vReach("restarted")
}

// C13: a short delay scheduled while the dispatcher sleeps towards a distant one is not served late.
// Prompt environment: time passes only when a timer fires, and a timer fires exactly when due (+1 ns).
func zzC13Prompt() {
	cc.idleTimeout = time.Duration(zzMaxD2)
	cc.maxWorkers = []int{1, 2}[vChoose("maxWorkers", 2)]
	far := vInt64("far")
	near := vInt64("near")
	vAssume(near >= 0 && near <= zzMaxD2 && far >= 0 && far <= zzMaxD2)
	type rec struct {
		due  time.Time
		done chan struct{}
	}
	mk := func(d int64) *rec {
		r := &rec{due: time.Now().Add(time.Duration(d)), done: make(chan struct{})}
		Call(func() {
			late := time.Now().Sub(r.due)
			vAssert(late >= 0, "started early")
			vAssert(late <= 16, "a future was started much later than due although every timer fired on time and callbacks return at once")
			close(r.done)
		}, time.Duration(d))
		return r
	}
	if vParam("SCEN") == 1 {
		// a burst of two due futures brings up two workers, which then go idle; a short future scheduled then
		// must still be served on time (by whichever worker stays)
		cc.maxWorkers = 2
		cc.idleTimeout = time.Duration(1 << 30)
		p1, p2 := mk(0), mk(0)
		<-p1.done
		<-p2.done
		vSettle()
		vAssume(near <= 1<<20)
		c := mk(near)
		<-c.done
		vReach("all-fired")
		return
	}
	a := mk(far)
	vSettle() // the dispatcher is now asleep towards the first future
	b := mk(near)
	var c *rec
	if vChoose("burst", 2) == 1 {
		c = mk(near) // a burst: two futures due at the same instant
	}
	<-a.done
	<-b.done
	if c != nil {
		<-c.done
	}
	vReach("all-fired")
}

