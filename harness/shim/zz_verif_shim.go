//go:build verif

package PKGNAME

// Shim seen by the harnesses. Under the gosx engine every v* function is intercepted by name
// (its body below is never executed symbolically). Compiled natively (replay of a counterexample,
// translator self-check) the bodies feed the recorded values in call order.

import (
	"encoding/json"
	"fmt"
	"os"
	"sync"
	"time"
)

type vNDValue struct {
	Name string   `json:"name"`
	Kind string   `json:"kind"`
	Vals []uint64 `json:"vals"`
}

type vCex struct {
	ND     []vNDValue     `json:"nd"`
	Params map[string]int `json:"params"`
	Entry  string         `json:"entry"`
}

var (
	vCexOnce sync.Once
	vCexData vCex
	vCexPos  int
	vMu      sync.Mutex
	vTrace   []string
)

func vLoad() {
	vCexOnce.Do(func() {
		if vCexData.ND != nil || vCexData.Entry != "" {
			return
		}
		vReadCex(os.Getenv("VERIF_CEX"))
	})
}

func vReadCex(p string) {
	if p == "" {
		panic("VERIF-SHIM: VERIF_CEX not set")
	}
	b, err := os.ReadFile(p)
	if err != nil {
		panic("VERIF-SHIM: " + err.Error())
	}
	vCexData = vCex{}
	if err := json.Unmarshal(b, &vCexData); err != nil {
		panic("VERIF-SHIM: " + err.Error())
	}
	vCexPos = 0
	vTrace = nil
	vTok = 0
}

// vResetCex loads another recorded assignment (used by the replay test).
func vResetCex(p string) {
	vMu.Lock()
	defer vMu.Unlock()
	vReadCex(p)
}

func vCexEntry() string { return vCexData.Entry }

func vNext(name, kind string) []uint64 {
	vLoad()
	vMu.Lock()
	defer vMu.Unlock()
	for vCexPos < len(vCexData.ND) && vCexData.ND[vCexPos].Kind == "clock" && kind != "clock" {
		vCexPos++
	}
	if vCexPos >= len(vCexData.ND) {
		panic(fmt.Sprintf("VERIF-DIVERGED: nd value %q requested beyond the recorded %d", name, len(vCexData.ND)))
	}
	e := vCexData.ND[vCexPos]
	vCexPos++
	if e.Name != name {
		panic(fmt.Sprintf("VERIF-DIVERGED: nd value %q requested, recorded %q", name, e.Name))
	}
	return e.Vals
}

func vInt(name string) int       { return int(vNext(name, "int")[0]) }
func vInt64(name string) int64   { return int64(vNext(name, "int64")[0]) }
func vUint64(name string) uint64 { return vNext(name, "uint64")[0] }
func vUint32(name string) uint32 { return uint32(vNext(name, "uint32")[0]) }
func vUint16(name string) uint16 { return uint16(vNext(name, "uint16")[0]) }
func vByte(name string) byte     { return byte(vNext(name, "byte")[0]) }
func vBool(name string) bool     { return vNext(name, "bool")[0] != 0 }

// vRange returns a symbolic int with lo <= x <= hi (the stated bound).
func vRange(name string, lo, hi int) int { return int(vNext(name, "int")[0]) }

// vBytes returns n bytes of symbolic content.
func vBytes(name string, n int) []byte {
	vals := vNext(name, "bytes")
	if len(vals) != n {
		panic("VERIF-DIVERGED: vBytes length")
	}
	b := make([]byte, n)
	for i := range b {
		b[i] = byte(vals[i])
	}
	return b
}

// vChoose returns a value in [0,n); the engine case-splits on it.
func vChoose(name string, n int) int { return int(vNext(name, "choose")[0]) }

// vConcrete makes the engine case-split on the value of x.
func vConcrete(x int) int { return x }

func vAssume(c bool) {
	if !c {
		panic("VERIF-DIVERGED: assumption does not hold on replay")
	}
}

func vAssert(c bool, msg string) {
	if !c {
		panic("VERIF-ASSERT: " + msg)
	}
}

// vMustPanic runs f and reports whether it panicked.
func vMustPanic(f func()) (p bool) {
	defer func() {
		if r := recover(); r != nil {
			if s, ok := r.(string); ok && len(s) > 6 && s[:6] == "VERIF-" {
				panic(r)
			}
			p = true
		}
	}()
	f()
	return false
}

func vObserve(vs ...any) {
	vMu.Lock()
	vTrace = append(vTrace, fmt.Sprint(vs...))
	vMu.Unlock()
}

// vKnownIf marks the region up to vKnownEnd as belonging to the known finding id when c holds.
func vKnownIf(id string, c bool) bool { return c }
func vKnownEnd()                      {}
func vReach(tag string)               {}

func vSpawn(name string, f func()) { go f() }
func vYield()                      {}
func vGuardedBy(obj any, mu *sync.Mutex) {}
func vSeq() int                    { return 0 }
func vThreadsLive() int            { return 0 }
func vHeld(mu *sync.Mutex) bool    { return false }

func vParam(name string) int {
	vLoad()
	return vCexData.Params[name]
}

func vNow() time.Time { return time.Now() }

var vTok int

// vToken returns a string distinct from every token returned before.
func vToken(prefix string) string {
	vMu.Lock()
	defer vMu.Unlock()
	vTok++
	return fmt.Sprintf("%s%04d", prefix, vTok)
}

// vSameCell reports whether two slices share their backing array.
func vSameCell(a, b []byte) bool {
	if cap(a) == 0 || cap(b) == 0 {
		return false
	}
	return &a[:cap(a)][cap(a)-1] == &b[:cap(b)][cap(b)-1]
}

// vErrorsIs is the engine's replacement for errors.Is (the real one uses reflection).
func vErrorsIs(err, target error) bool {
	if err == nil || target == nil {
		return err == target
	}
	for {
		if err == target {
			return true
		}
		if x, ok := err.(interface{ Is(error) bool }); ok && x.Is(target) {
			return true
		}
		switch x := err.(type) {
		case interface{ Unwrap() error }:
			err = x.Unwrap()
			if err == nil {
				return false
			}
		case interface{ Unwrap() []error }:
			for _, e := range x.Unwrap() {
				if vErrorsIs(e, target) {
					return true
				}
			}
			return false
		default:
			return false
		}
	}
}

// vWaitOthers blocks until every other goroutine started through the engine has finished.
func vWaitOthers() {}

// vSettle blocks until every other goroutine is finished or blocked (timers excluded).
func vSettle() {}

// vNative reports whether the harness runs natively (replay / self-check) rather than under the engine.
func vNative() bool { return true }

// vStep marks the boundary of an atomic step of a stub (a scheduling point that counts against the preemption bound).
func vStep() {}

// vAdvanceClock lets d nanoseconds pass on the engine's clock (natively: not available, time is real).
func vAdvanceClock(d int64) {}
