//go:build verif

package xbinary

// C16: decoders are total. Every byte of the input and its length are symbolic.

func zzC16Bytes() {
	n := vRange("n", 0, vParam("N"))
	buf := vBytes("buf", n)
	newBuf := vBool("newBuf")
	c, res, err := UnmarshalBytes(buf, newBuf)
	vReach("returned")
	if err != nil {
		vAssert(c == 0, "error but consumed != 0")
		return
	}
	vAssert(c >= 1 && c <= n, "consumed outside the input")
	vAssert(len(res) <= c, "result longer than consumed")
	if !newBuf && len(res) > 0 {
		vAssert(vSameCell(res, buf), "result is not a sub-range of the input")
	}
	// content: res == buf[c-len(res):c]
	for i := range res {
		vAssert(res[i] == buf[c-len(res)+i], "result bytes differ from input range")
	}
}
