package gosx

import (
	"bytes"
	"encoding/json"
	"flag"
	"fmt"
	"os"
	"os/exec"
	"path/filepath"
	"sort"
	"strconv"
	"strings"
	"time"
)

// ---------------------------------------------------------------------
// check description

type EntrySpec struct {
	Func          string         `json:"func"`
	Quick         map[string]int `json:"quick"`
	Thorough      map[string]int `json:"thorough"`
	MustReach     []string       `json:"must_reach"`
	Preemptions   *int           `json:"preemptions"`
	PreemptQuick  *int           `json:"preemptions_quick"`
	MaxPaths      int            `json:"max_paths"`
	Solver        string         `json:"solver"`
	Replay        string         `json:"replay"` // native (default), engine, none
	MaxSteps      int            `json:"max_steps"`
	PoolAdv       bool           `json:"pool_adversarial"`
	FixedClock    bool           `json:"fixed_clock"`
	PromptClock   bool           `json:"prompt_clock"`
	InvisAtomics  bool           `json:"invisible_atomics"`
	MapReverse    bool           `json:"map_reverse"`
	ThoroughOnly  bool           `json:"thorough_only"`
	SymIndexLimit int            `json:"sym_index_limit"`
	Bound         string         `json:"bound"`
	SelfCheck     int            `json:"self_check"`
	TimeoutMs     int            `json:"solver_timeout_ms"`
	Unwind        int            `json:"unwind"`
	Fallback      string         `json:"fallback"`
	DeadlockOK    bool           `json:"deadlock_ok"`
}

type UnitSpec struct {
	Package string            `json:"package"`
	Harness []string          `json:"harness"`
	Stubs   map[string]string `json:"stubs"`
	Extra   map[string]string `json:"extra_overlay"` // repo-relative virtual path -> file under /verif
	// NativeTests: test files (under /verif) overlaid into the package and run natively; their output must contain
	// "<marker> <n>" - used to validate contract stubs against the real component (e.g. the Redis stub vs miniredis)
	NativeTests []NativeTest `json:"native_tests"`
	Entries []EntrySpec       `json:"entries"`
}

type NativeTest struct {
	File   string `json:"file"`
	Run    string `json:"run"`
	Marker string `json:"marker"`
	What   string `json:"what"`
}

type CheckSpec struct {
	Property     string     `json:"property"`
	Units        []UnitSpec `json:"units"`
	Assumptions  []string   `json:"assumptions"`
	OutsideClaim []string   `json:"outside_claim"`
	StubsDoc     []string   `json:"stubs_doc"`
}

type KnownFinding struct {
	ID       string `json:"id"`
	Property string `json:"property"`
	What     string `json:"what"`
}

type KnownFile struct {
	Findings []KnownFinding `json:"findings"`
	Fixed    []string       `json:"fixed"`
}

type entryReport struct {
	Func       string         `json:"func"`
	Package    string         `json:"package"`
	Params     map[string]int `json:"params"`
	Bound      string         `json:"bound,omitempty"`
	Paths      int            `json:"paths"`
	Infeasible int            `json:"infeasible_paths"`
	Blocks     int64          `json:"ssa_blocks"`
	Queries    int            `json:"queries"`
	Sat        int            `json:"sat"`
	Unsat      int            `json:"unsat"`
	Unknown    int            `json:"unknown"`
	SolverS    float64        `json:"solver_s"`
	WallS      float64        `json:"wall_s"`
	Asserts    int            `json:"assert_sites_reached"`
	Reached    []string       `json:"reach_tags"`
	Violations int            `json:"violations"`
	SelfCheck  int            `json:"native_agreement_runs"`
	Solver     string         `json:"solver"`
	Fallback   string         `json:"fallback_solver,omitempty"`
	Rescued    int            `json:"queries_decided_by_fallback,omitempty"`
	Cross      int            `json:"obligations_cross_checked_z3_5_1"`
}

// ---------------------------------------------------------------------

func CheckMain(args []string) int {
	fs := flag.NewFlagSet("check", flag.ExitOnError)
	tier := fs.String("tier", "", "quick|thorough")
	verif := fs.String("verif", "/verif", "")
	repo := fs.String("repo", "/repo", "")
	only := fs.String("entry", "", "run only this entry")
	workers := fs.Int("workers", 16, "")
	index := fs.Int("index", -1, "run only the i-th entry (0-based, over all units)")
	if len(args) == 0 {
		fmt.Fprintln(os.Stderr, "usage: gosx check <property> [--tier quick|thorough]")
		return 2
	}
	prop := args[0]
	fs.Parse(args[1:])
	if *tier == "" {
		*tier = os.Getenv("VERIF_TIER")
	}
	if *tier == "" {
		*tier = "quick"
	}
	seed := 0
	if s := os.Getenv("VERIF_SEED"); s != "" {
		seed, _ = strconv.Atoi(s)
	}
	c := &checker{prop: prop, tier: *tier, verif: *verif, repo: *repo, seed: seed, only: *only, workers: *workers, index: *index}
	return c.run()
}

type checker struct {
	prop, tier, verif, repo, only string
	seed, workers, index, entryNo int
	spec                          CheckSpec
	known                         KnownFile
	reports                       []entryReport
	samples                       []interface{}
	funcs                         map[string]bool
	inconclusive                  []string
	violLines                     []string
	knownLines                    []string
	violations                    int
	states                        int
	transitions                   int64
	validated                     int
	replayN                       int
	queries, discharged           int
	solverS                       float64
	stubsUsed                     map[string]string
	crossed                       int
	stubChecks                    []string
}

func (c *checker) run() int {
	start := time.Now()
	c.funcs = map[string]bool{}
	c.stubsUsed = map[string]string{}
	b, err := os.ReadFile(filepath.Join(c.verif, "checks", c.prop+".json"))
	if err != nil {
		fmt.Println("INCONCLUSIVE cannot read check description:", err)
		return 2
	}
	if err := json.Unmarshal(b, &c.spec); err != nil {
		fmt.Println("INCONCLUSIVE bad check description:", err)
		return 2
	}
	if kb, err := os.ReadFile(filepath.Join(c.verif, "known_findings.json")); err == nil {
		json.Unmarshal(kb, &c.known)
	}
	os.RemoveAll(filepath.Join(c.verif, "replays", c.prop))
	for ui, u := range c.spec.Units {
		c.runUnit(ui, u)
	}
	wall := time.Since(start).Seconds()
	c.writeEvidence(wall)
	for _, l := range c.knownLines {
		fmt.Println(l)
	}
	for _, l := range c.violLines {
		fmt.Println(l)
	}
	for _, m := range c.inconclusive {
		fmt.Println("INCONCLUSIVE", m)
	}
	fmt.Printf("%s tier=%s entries=%d paths=%d queries=%d solver=%.1fs wall=%.1fs violations=%d inconclusive=%d native-agreement=%d\n",
		c.prop, c.tier, len(c.reports), c.states, c.queries, c.solverS, wall, c.violations, len(c.inconclusive), c.validated)
	if c.violations > 0 {
		return 1
	}
	if len(c.inconclusive) > 0 {
		return 2
	}
	return 0
}

func (c *checker) isKnown(id string) *KnownFinding {
	for i := range c.known.Findings {
		if c.known.Findings[i].ID == id && c.known.Findings[i].Property == c.prop {
			return &c.known.Findings[i]
		}
	}
	return nil
}

func (c *checker) runUnit(ui int, u UnitSpec) {
	harness := map[string]string{}
	for _, h := range u.Harness {
		harness[filepath.Base(h)] = filepath.Join(c.verif, h)
	}
	for virt, real := range u.Extra {
		harness["/"+virt] = filepath.Join(c.verif, real)
	}
	// refuse harness files without the verif build tag
	for _, real := range harness {
		b, err := os.ReadFile(real)
		if err != nil || !bytes.Contains(b, []byte("//go:build verif")) {
			c.inconclusive = append(c.inconclusive, "harness-build: "+real+" missing or without //go:build verif")
			return
		}
	}
	work := filepath.Join(c.verif, ".work", fmt.Sprintf("%s-%d-%d", c.prop, ui, os.Getpid()))
	defer os.RemoveAll(work)
	p, err := Load(c.repo, u.Package, harness, work)
	if err != nil {
		c.inconclusive = append(c.inconclusive, "harness-build: "+firstLines(err.Error(), 6))
		return
	}
	if c.index < 0 && c.only == "" {
		for _, nt := range u.NativeTests {
			c.runNativeTest(p, u, nt, work)
		}
	}
	for _, e := range u.Entries {
		no := c.entryNo
		c.entryNo++
		if c.index >= 0 && no != c.index {
			continue
		}
		if c.only != "" && e.Func != c.only {
			continue
		}
		if e.ThoroughOnly && c.tier != "thorough" {
			continue
		}
		c.runEntry(p, u, e, work)
	}
}

// runNativeTest runs a validation test of a stub natively (overlay, nothing written into the repository).
func (c *checker) runNativeTest(p *Program, u UnitSpec, nt NativeTest, work string) {
	dir := filepath.Join(work, "native-"+nt.Run)
	rp, err := c.writeReplayDir(p, u, dir, nil)
	if err != nil {
		c.inconclusive = append(c.inconclusive, "stub-validation setup failed: "+err.Error())
		return
	}
	// add the test file to the overlay and run only it
	ob, _ := os.ReadFile(filepath.Join(dir, "overlay.json"))
	var ov struct{ Replace map[string]string }
	json.Unmarshal(ob, &ov)
	tb, err := os.ReadFile(filepath.Join(c.verif, nt.File))
	if err != nil {
		c.inconclusive = append(c.inconclusive, "stub-validation: "+err.Error())
		return
	}
	dst := filepath.Join(dir, filepath.Base(nt.File))
	os.WriteFile(dst, tb, 0o644)
	ov.Replace[filepath.Join(c.repo, u.Package, filepath.Base(nt.File))] = dst
	delete(ov.Replace, filepath.Join(c.repo, u.Package, "zz_verif_replay_test.go"))
	nb, _ := json.MarshalIndent(ov, "", " ")
	os.WriteFile(filepath.Join(dir, "overlay.json"), nb, 0o644)
	sh, _ := os.ReadFile(rp)
	script := strings.Replace(string(sh), "-run 'TestZZReplay$'", "-run '"+nt.Run+"$'", 1)
	os.WriteFile(rp, []byte(script), 0o755)
	cmd := exec.Command("bash", rp)
	cmd.Env = append(os.Environ(), fmt.Sprintf("VERIF_SEED=%d", c.seed))
	out, _ := cmd.CombinedOutput()
	txt := string(out)
	n := 0
	for _, l := range strings.Split(txt, "\n") {
		if strings.HasPrefix(strings.TrimSpace(l), nt.Marker+" ") {
			fmt.Sscanf(strings.TrimSpace(l)[len(nt.Marker)+1:], "%d", &n)
		}
	}
	if n == 0 || strings.Contains(txt, "FAIL") {
		c.inconclusive = append(c.inconclusive, "stub-mismatch: "+nt.What+": "+firstLines(lastLines(txt, 6), 6))
		return
	}
	c.validated += n
	c.stubChecks = append(c.stubChecks, fmt.Sprintf("%s: %d replies agreed", nt.What, n))
}

func lastLines(s string, n int) string {
	ls := strings.Split(strings.TrimSpace(s), "\n")
	if len(ls) > n {
		ls = ls[len(ls)-n:]
	}
	return strings.Join(ls, "\n")
}

func firstLines(s string, n int) string {
	ls := strings.Split(s, "\n")
	if len(ls) > n {
		ls = ls[:n]
	}
	return strings.Join(ls, " ; ")
}

func (c *checker) runEntry(p *Program, u UnitSpec, e EntrySpec, work string) {
	cfg := Config{Workers: c.workers, Preemptions: -1, Params: map[string]int{}, Stubs: map[string]string{}}
	params := e.Quick
	if c.tier == "thorough" && e.Thorough != nil {
		params = e.Thorough
	}
	for k, v := range params {
		cfg.Params[k] = v
	}
	for k, v := range u.Stubs {
		cfg.Stubs[k] = v
		c.stubsUsed[k] = v
	}
	if p.Target.Func("vErrorsIs") != nil {
		if _, ok := cfg.Stubs["errors.Is"]; !ok {
			cfg.Stubs["errors.Is"] = "vErrorsIs"
			c.stubsUsed["errors.Is"] = "vErrorsIs (shim, chain walk without reflection)"
		}
	}
	if e.Preemptions != nil {
		cfg.Preemptions = *e.Preemptions
	}
	if c.tier == "quick" && e.PreemptQuick != nil {
		cfg.Preemptions = *e.PreemptQuick
	}
	cfg.MaxPaths = e.MaxPaths
	if cfg.MaxPaths == 0 {
		cfg.MaxPaths = 400000
	}
	cfg.SolverKind = e.Solver
	cfg.MaxSteps = e.MaxSteps
	cfg.PoolAdversarial = e.PoolAdv
	cfg.FixedClock = e.FixedClock
	cfg.PromptClock = e.PromptClock
	cfg.InvisibleAtomics = e.InvisAtomics
	cfg.MapReverse = e.MapReverse
	cfg.SymIndexLimit = e.SymIndexLimit
	cfg.Unwind = e.Unwind
	cfg.Fallback = e.Fallback
	cfg.DeadlockOK = e.DeadlockOK
	cfg.SolverTimeoutMs = e.TimeoutMs
	if cfg.SolverTimeoutMs == 0 {
		if c.tier == "thorough" {
			cfg.SolverTimeoutMs = 120000
		} else {
			cfg.SolverTimeoutMs = 20000
		}
	}
	if v := os.Getenv("GOSX_TIMEOUT_MS"); v != "" {
		cfg.SolverTimeoutMs, _ = strconv.Atoi(v)
	}
	cfg.Seed = c.seed
	// independent second opinion on a sample of the assertion obligations (z3 5.1 beside z3 4.8.12)
	cfg.CrossSolver = "z3-new"
	cfg.CrossEvery = 400
	if c.tier == "thorough" {
		cfg.CrossEvery = 100
	}
	if e.Replay != "engine" && e.Replay != "none" {
		cfg.SampleModels = e.SelfCheck
		if cfg.SampleModels == 0 {
			cfg.SampleModels = 6
			if c.tier == "thorough" {
				cfg.SampleModels = 24
			}
		}
	}
	cfg.Defaults()
	p.Cfg = cfg
	p.replCache.Range(func(k, v interface{}) bool { p.replCache.Delete(k); return true })

	r := p.RunEntry(e.Func)
	rep := entryReport{Func: e.Func, Package: u.Package, Params: cfg.Params, Bound: e.Bound, Paths: r.Paths, Infeasible: r.Infeasible, Blocks: r.Blocks,
		Queries: r.Queries, Sat: r.SatN, Unsat: r.UnsatN, Unknown: r.UnknownN, SolverS: r.SolverTime.Seconds(), WallS: r.Wall.Seconds(),
		Asserts: len(r.Asserts), Violations: len(r.Violations), Solver: cfg.SolverKind}
	if rep.Solver == "" {
		rep.Solver = "z3"
	}
	rep.Fallback = e.Fallback
	rep.Rescued = r.Rescued
	rep.Cross = r.CrossChecked
	c.crossed += r.CrossChecked
	for k := range r.Reached {
		rep.Reached = append(rep.Reached, k)
	}
	sort.Strings(rep.Reached)
	for k := range r.Funcs {
		c.funcs[k] = true
	}
	c.states += r.Paths - r.Infeasible
	c.transitions += r.Blocks
	c.queries += r.Queries
	c.discharged += r.UnsatN
	c.solverS += r.SolverTime.Seconds()
	for _, m := range r.Inconclusive {
		c.inconclusive = append(c.inconclusive, e.Func+": "+m)
	}
	for _, tag := range e.MustReach {
		if !r.Reached[tag] && len(r.Inconclusive) == 0 && len(r.Violations) == 0 {
			c.inconclusive = append(c.inconclusive, fmt.Sprintf("%s: vacuous: reach tag %q never reached", e.Func, tag))
		}
	}
	if len(r.Asserts) == 0 && len(r.Inconclusive) == 0 && len(r.Violations) == 0 {
		c.inconclusive = append(c.inconclusive, e.Func+": vacuous: no assertion reached")
	}
	for _, s := range r.Samples {
		if len(c.samples) < 12 {
			c.samples = append(c.samples, map[string]interface{}{"entry": e.Func, "observed": s})
		}
	}
	// violations: group by (known id, kind, msg-site), replay the shortest of each group
	type grp struct {
		v *Violation
		n int
	}
	groups := map[string]*grp{}
	var order []string
	for _, v := range r.Violations {
		key := v.Known + "|" + v.Kind + "|" + v.Pos + "|" + strings.SplitN(v.Msg, "[", 2)[0]
		if g, ok := groups[key]; ok {
			g.n++
			continue
		}
		groups[key] = &grp{v, 1}
		order = append(order, key)
	}
	knownSeen := map[string]bool{}
	for _, key := range order {
		g := groups[key]
		v := g.v
		mode := e.Replay
		if mode == "" {
			mode = "native"
		}
		if v.Kind == "lockset" || v.Kind == "deadlock" {
			// schedule-level findings have no sequential native counterpart: they are engine-level counterexamples
			mode = "engine"
		}
		dir := filepath.Join(c.verif, "replays", c.prop, fmt.Sprintf("%d", c.replayN))
		c.replayN++
		confirmed, how := c.replay(p, u, e, v, dir, mode, cfg.Params)
		sample := map[string]interface{}{"entry": e.Func, "violation": v.Kind, "msg": v.Msg, "pos": v.Pos, "nd": v.ND, "replay": how, "known_finding": v.Known}
		if len(c.samples) < 12 {
			c.samples = append(c.samples, sample)
		}
		if !confirmed {
			c.inconclusive = append(c.inconclusive, fmt.Sprintf("%s: counterexample did not reproduce (%s): %s at %s", e.Func, how, v.Msg, v.Pos))
			continue
		}
		c.validated++
		if v.Known != "" {
			if kf := c.isKnown(v.Known); kf != nil {
				if !knownSeen[v.Known] {
					knownSeen[v.Known] = true
					c.knownLines = append(c.knownLines, fmt.Sprintf("KNOWN-FINDING: property=%s %s: %s", c.prop, kf.ID, kf.What))
				}
				continue
			}
		}
		c.violations++
		c.violLines = append(c.violLines, fmt.Sprintf("VIOLATION property=%s replay=%s", c.prop, filepath.Join(dir, "run.sh")))
		fmt.Printf("  violation in %s: %s: %s at %s  nd=%s\n", e.Func, v.Kind, v.Msg, v.Pos, ndString(v.ND))
	}
	// translator self-check on passing paths
	if len(r.Violations) == 0 && len(r.Inconclusive) == 0 && e.Replay != "engine" && e.Replay != "none" {
		ok, bad := c.selfCheck(p, u, e, cfg.Params, r.Models, work)
		rep.SelfCheck = ok
		c.validated += ok
		if bad != "" {
			c.inconclusive = append(c.inconclusive, e.Func+": translator-mismatch: "+bad)
		}
	}
	if len(c.samples) < 12 {
		c.samples = append(c.samples, map[string]interface{}{"entry": e.Func, "obligation": "for all inputs within the bound: every vAssert holds and no panic on any feasible path",
			"params": cfg.Params, "paths": r.Paths, "queries": r.Queries, "unsat": r.UnsatN, "sat": r.SatN, "verdict": verdictOf(r), "ms": int(r.Wall.Milliseconds())})
	}
	c.reports = append(c.reports, rep)
}

func verdictOf(r *Result) string {
	if len(r.Violations) > 0 {
		return "counterexample"
	}
	if len(r.Inconclusive) > 0 {
		return "inconclusive"
	}
	return "holds within bound"
}

func ndString(nd []NDValue) string {
	var parts []string
	for _, n := range nd {
		if n.Kind == "clock" && len(nd) > 12 {
			continue
		}
		parts = append(parts, fmt.Sprintf("%s=%v", n.Name, n.Vals))
	}
	s := strings.Join(parts, " ")
	if len(s) > 600 {
		s = s[:600] + "…"
	}
	return s
}

// ---------------------------------------------------------------------
// replay

type cexFile struct {
	ND     []NDValue      `json:"nd"`
	Params map[string]int `json:"params"`
	Entry  string         `json:"entry"`
	Msg    string         `json:"msg"`
}

const replayTestTmpl = `//go:build verif

package %s

import (
	"fmt"
	"os"
	"path/filepath"
	"sort"
	"testing"
)

var zzReplayEntries = map[string]func(){
%s}

func zzRunOne(t *testing.T, cex string) (failed string) {
	defer func() {
		if r := recover(); r != nil {
			failed = fmt.Sprint(r)
		}
	}()
	vResetCex(cex)
	zzReplayEntries[vCexEntry()]()
	return ""
}

func TestZZReplay(t *testing.T) {
	path := os.Getenv("VERIF_CEX")
	files := []string{path}
	if fi, err := os.Stat(path); err == nil && fi.IsDir() {
		files, _ = filepath.Glob(filepath.Join(path, "*.json"))
		sort.Strings(files)
	}
	for _, f := range files {
		if msg := zzRunOne(t, f); msg != "" {
			t.Errorf("REPLAY-FAIL %%s: %%s", filepath.Base(f), msg)
		} else {
			fmt.Printf("REPLAY-PASS %%s\n", filepath.Base(f))
		}
	}
}
`

func (c *checker) writeReplayDir(p *Program, u UnitSpec, dir string, entries []string) (string, error) {
	if err := os.MkdirAll(dir, 0o755); err != nil {
		return "", err
	}
	pkgName := p.Target.Pkg.Name()
	overlay := map[string]string{}
	pkgDir := filepath.Join(c.repo, u.Package)
	for _, h := range u.Harness {
		b, err := os.ReadFile(filepath.Join(c.verif, h))
		if err != nil {
			return "", err
		}
		b = []byte(strings.Replace(string(b), "package PKGNAME", "package "+pkgName, 1))
		dst := filepath.Join(dir, filepath.Base(h))
		if err := os.WriteFile(dst, b, 0o644); err != nil {
			return "", err
		}
		overlay[filepath.Join(pkgDir, filepath.Base(h))] = dst
	}
	for virt, real := range u.Extra {
		b, err := os.ReadFile(filepath.Join(c.verif, real))
		if err != nil {
			return "", err
		}
		dst := filepath.Join(dir, "extra_"+filepath.Base(real))
		if err := os.WriteFile(dst, b, 0o644); err != nil {
			return "", err
		}
		overlay[filepath.Join(c.repo, virt)] = dst
	}
	var sb strings.Builder
	for _, e := range entries {
		fmt.Fprintf(&sb, "\t%q: %s,\n", e, e)
	}
	test := fmt.Sprintf(replayTestTmpl, pkgName, sb.String())
	tp := filepath.Join(dir, "zz_verif_replay_test.go")
	if err := os.WriteFile(tp, []byte(test), 0o644); err != nil {
		return "", err
	}
	overlay[filepath.Join(pkgDir, "zz_verif_replay_test.go")] = tp
	ob, _ := json.MarshalIndent(map[string]interface{}{"Replace": overlay}, "", " ")
	op := filepath.Join(dir, "overlay.json")
	if err := os.WriteFile(op, ob, 0o644); err != nil {
		return "", err
	}
	for _, n := range []string{"go.mod", "go.sum"} {
		b, err := os.ReadFile(filepath.Join(c.repo, n))
		if err != nil {
			return "", err
		}
		os.WriteFile(filepath.Join(dir, n), b, 0o644)
	}
	run := fmt.Sprintf(`#!/bin/bash
# replays the counterexample(s) in this directory against %s with the harness overlaid (nothing is written into the repository)
cd %s
export GOFLAGS=-mod=mod GOPROXY=off GOSUMDB=off GOTOOLCHAIN=local
VERIF_CEX="${VERIF_CEX:-%s}" exec go test -v -tags verif -vet=off -count=1 -timeout 120s -modfile=%s -overlay %s -run 'TestZZReplay$' %s
`, c.repo, c.repo, filepath.Join(dir, "cex.json"), filepath.Join(dir, "go.mod"), op, u.Package)
	rp := filepath.Join(dir, "run.sh")
	if err := os.WriteFile(rp, []byte(run), 0o755); err != nil {
		return "", err
	}
	return rp, nil
}

func (c *checker) replay(p *Program, u UnitSpec, e EntrySpec, v *Violation, dir, mode string, params map[string]int) (bool, string) {
	rp, err := c.writeReplayDir(p, u, dir, []string{e.Func})
	if err != nil {
		return false, "replay setup failed: " + err.Error()
	}
	cb, _ := json.MarshalIndent(cexFile{ND: v.ND, Params: params, Entry: e.Func, Msg: v.Msg}, "", " ")
	os.WriteFile(filepath.Join(dir, "cex.json"), cb, 0o644)
	if mode == "engine" || mode == "none" {
		// stubs of this harness have no native counterpart: the counterexample was produced and is re-checked by the engine only
		os.WriteFile(filepath.Join(dir, "run.sh"), []byte(fmt.Sprintf("#!/bin/bash\n# engine-level counterexample (harness uses stubs without a native counterpart)\ncat %s\nexit 1\n", filepath.Join(dir, "cex.json"))), 0o755)
		return true, "engine"
	}
	cmd := exec.Command("bash", rp)
	out, _ := cmd.CombinedOutput()
	os.WriteFile(filepath.Join(dir, "replay.log"), out, 0o644)
	s := string(out)
	if strings.Contains(s, "VERIF-DIVERGED") {
		return false, "native run diverged from the engine's path"
	}
	if strings.Contains(s, "REPLAY-FAIL") {
		return true, "native"
	}
	if strings.Contains(s, "REPLAY-PASS") {
		return false, "native run passed"
	}
	return false, "native replay did not run: " + firstLines(s, 3)
}

// selfCheck takes models of completed paths and runs them natively: the native run must follow the same
// nd sequence and pass every assertion.
func (c *checker) selfCheck(p *Program, u UnitSpec, e EntrySpec, params map[string]int, models [][]NDValue, work string) (int, string) {
	if len(models) == 0 {
		return 0, ""
	}
	dir := filepath.Join(work, "selfcheck-"+e.Func)
	rp, err := c.writeReplayDir(p, u, dir, []string{e.Func})
	if err != nil {
		return 0, "self-check setup failed: " + err.Error()
	}
	cdir := filepath.Join(dir, "cex")
	os.MkdirAll(cdir, 0o755)
	for i, nd := range models {
		cb, _ := json.Marshal(cexFile{ND: nd, Params: params, Entry: e.Func})
		os.WriteFile(filepath.Join(cdir, fmt.Sprintf("m%03d.json", i)), cb, 0o644)
	}
	cmd := exec.Command("bash", rp)
	cmd.Env = append(os.Environ(), "VERIF_CEX="+cdir)
	out, _ := cmd.CombinedOutput()
	s := string(out)
	pass := strings.Count(s, "REPLAY-PASS")
	if strings.Contains(s, "REPLAY-FAIL") {
		for _, l := range strings.Split(s, "\n") {
			if strings.Contains(l, "REPLAY-FAIL") {
				return pass, strings.TrimSpace(l)
			}
		}
	}
	if pass != len(models) {
		return pass, "native self-check did not run: " + firstLines(s, 4)
	}
	return pass, ""
}

// ---------------------------------------------------------------------
// evidence

func (c *checker) writeEvidence(wall float64) {
	var funcs []string
	for k := range c.funcs {
		funcs = append(funcs, k)
	}
	sort.Strings(funcs)
	if len(c.samples) == 0 {
		c.samples = append(c.samples, map[string]interface{}{"note": "no entry completed"})
	}
	stubs := []string{}
	for k, v := range c.stubsUsed {
		stubs = append(stubs, k+" -> "+v)
	}
	sort.Strings(stubs)
	stubs = append(stubs, c.spec.StubsDoc...)
	cov := map[string]interface{}{
		"states":                        c.states,
		"transitions":                   c.transitions,
		"traces_validated_against_impl": c.validated,
		"samples":                       c.samples,
		"rule":                          "states = feasible symbolic paths completed by the SSA executor; transitions = SSA basic blocks executed symbolically; traces_validated = native runs (replays and solver models of passing paths) that agreed with the engine",
		"functions_encoded":             funcs,
		"entries":                       c.reports,
		"queries":                       c.queries,
		"discharged_unsat":              c.discharged,
		"solver_time_s":                 c.solverS,
		"solvers":                       []string{"z3 4.8.12 (-in, incremental push/pop)", "z3 5.1.0 (z3-new): a sample of the assertion obligations is re-decided, disagreement = INCONCLUSIVE", "cvc5 1.0 --solve-bv-as-int=sum as fallback where an entry says so"},
		"obligations_cross_checked":     c.crossed,
		"stub_validation":               c.stubChecks,
		"stubs":                         stubs,
		"outside_claim":                 c.spec.OutsideClaim,
		"inconclusive":                  c.inconclusive,
		"known_findings_seen":           c.knownLines,
		"repo_rev":                      gitRev(c.repo),
		"exhaustive":                    false,
	}
	ev := map[string]interface{}{
		"property_id": c.prop,
		"tier":        c.tier,
		"seed":        c.seed,
		"level":       "model_checking",
		"coverage":    cov,
		"assumptions": c.spec.Assumptions,
		"wall_s":      wall,
		"violations":  c.violations,
	}
	if c.states == 0 {
		cov["states"] = 0
	}
	b, _ := json.MarshalIndent(ev, "", " ")
	edir := filepath.Join(c.verif, "evidence")
	if d := os.Getenv("GOSX_EVIDENCE_DIR"); d != "" {
		edir = d // experiments only: the registered commands never set this
	}
	os.MkdirAll(edir, 0o755)
	os.WriteFile(filepath.Join(edir, c.prop+".json"), b, 0o644)
}

func gitRev(repo string) string {
	out, err := exec.Command("git", "-C", repo, "rev-parse", "--short", "HEAD").Output()
	if err != nil {
		return "unknown"
	}
	st, _ := exec.Command("git", "-C", repo, "status", "--porcelain").Output()
	r := strings.TrimSpace(string(out))
	if len(bytes.TrimSpace(st)) > 0 {
		r += "+dirty"
	}
	return r
}
