//go:build verif

package inmem

import (
	"context"
	"time"

	"github.com/acquirecloud/golibs/errors"
	"github.com/acquirecloud/golibs/kvs"
)

// C07: WaitForVersionChange never misses or invents a change (in-memory backend, real threads under the
// engine's scheduler). The environment thread is the only mutator, so the model is exact; before every
// mutation it marks, for every active waiter, which return values become justified.

type zzWaiter struct {
	key      string
	ver      string
	ctx      *zzCtx
	finished chan struct{}
	err      error
	started  bool
	// justification flags (monotone): some moment during the call at which the condition held
	sawDifferent bool
	sawAbsent    bool
	cancelled    bool
}

type zzC07 struct {
	st      kvs.Storage
	s       *service
	keys    []string
	present map[string]bool
	version map[string]string
	ws      []*zzWaiter
}

func (h *zzC07) mark() {
	for _, w := range h.ws {
		if !w.started {
			continue
		}
		if !h.present[w.key] {
			w.sawAbsent = true
		} else if h.version[w.key] != w.ver {
			w.sawDifferent = true
		}
	}
}

// predict the effect of a write on the model and mark the waiters BEFORE the real call
func (h *zzC07) willWrite(key string) {
	for _, w := range h.ws {
		if w.started && w.key == key {
			w.sawDifferent = true // every successful write installs a fresh version
		}
	}
}

func (h *zzC07) willDelete(key string) {
	for _, w := range h.ws {
		if w.started && w.key == key {
			w.sawAbsent = true
		}
	}
}

func (h *zzC07) invariant() {
	h.s.lock.Lock()
	for key, ws := range h.s.verChange {
		vAssert(ws.waiters >= 1, "waiter record without waiters left behind")
		select {
		case <-ws.done:
			vAssert(false, "waiter record with a closed channel left in the table")
		default:
		}
		n := 0
		for _, w := range h.ws {
			if w.started && w.key == key {
				select {
				case <-w.finished:
				default:
					n++
				}
			}
		}
		vAssert(ws.waiters <= n, "more waiters counted than callers inside WaitForVersionChange")
		r, ok := h.s.recs[key]
		vAssert(ok, "waiters parked on a key that does not exist")
		if ok {
			for _, w := range h.ws {
				_ = w
			}
			_ = r
		}
	}
	h.s.lock.Unlock()
}

func zzC07Inmem() {
	st := New()
	s := st.(*service)
	h := &zzC07{st: st, s: s, keys: []string{"a", "b"}[:vParam("K")], present: map[string]bool{}, version: map[string]string{}}
	vGuardedBy(s.recs, &s.lock)
	vGuardedBy(s.verChange, &s.lock)
	bg := context.Background()
	// initial state
	for _, k := range h.keys {
		if vBool("present") {
			r, err := st.Put(bg, kvs.Record{Key: k, Value: []byte{1}})
			vAssert(err == nil, "Put failed")
			h.present[k], h.version[k] = true, r.Version
		}
	}
	W := vParam("W")
	for i := 0; i < W; i++ {
		w := &zzWaiter{key: h.keys[vChoose("wkey", len(h.keys))], ctx: zzNewCtx(), finished: make(chan struct{})}
		h.ws = append(h.ws, w)
	}
	started := 0
	S := vParam("S")
	// SCRIPT != 0: a fixed script, one decimal digit (operation+1) per action, most significant first
	var fixed []int
	for sc := vParam("SCRIPT"); sc > 0; sc /= 10 {
		fixed = append([]int{sc%10 - 1}, fixed...)
	}
	if len(fixed) > 0 {
		S = len(fixed)
	}
	for step := 0; step < S; step++ {
		var op int
		if len(fixed) > 0 {
			op = fixed[step]
		} else {
			op = vChoose("op", 7)
			if (vParam("OPMASK")>>uint(op))&1 == 0 {
				vAssume(false) // operation not in this entry's alphabet
			}
		}
		switch op {
		case 0: // start the next waiter
			vAssume(started < W)
			w := h.ws[started]
			started++
			switch vChoose("wver", 3) {
			case 0:
				w.ver = h.version[w.key] // the current version at the time of the call ("" if absent)
			case 1:
				w.ver = "stale-version"
			case 2:
				w.ver = ""
			}
			w.started = true
			h.mark()
			vSpawn("waiter", func() {
				w.err = st.WaitForVersionChange(w.ctx, w.key, w.ver)
				close(w.finished)
			})
		case 1: // cancel a started waiter
			vAssume(started > 0)
			w := h.ws[vChoose("which", started)]
			vAssume(!w.cancelled)
			w.cancelled = true
			w.ctx.cancel()
		case 2: // Put
			k := h.keys[vChoose("key", len(h.keys))]
			h.willWrite(k)
			r, err := st.Put(bg, kvs.Record{Key: k, Value: []byte{2}})
			vAssert(err == nil, "Put failed")
			h.present[k], h.version[k] = true, r.Version
		case 3: // CasByVersion with the current version (ok) or a stale one (conflict)
			k := h.keys[vChoose("key", len(h.keys))]
			vAssume(h.present[k])
			if vBool("casOK") {
				h.willWrite(k)
				r, err := st.CasByVersion(bg, kvs.Record{Key: k, Value: []byte{3}, Version: h.version[k]})
				vAssert(err == nil, "CasByVersion with the current version failed")
				h.version[k] = r.Version
			} else {
				_, err := st.CasByVersion(bg, kvs.Record{Key: k, Value: []byte{3}, Version: "stale-version"})
				vAssert(zzIsErr(err, errors.ErrConflict), "CasByVersion with a stale version did not conflict")
			}
		case 4: // Delete
			k := h.keys[vChoose("key", len(h.keys))]
			if h.present[k] {
				h.willDelete(k)
			}
			err := st.Delete(bg, k)
			vAssert((err == nil) == h.present[k], "Delete result")
			h.present[k] = false
		case 5: // Create
			k := h.keys[vChoose("key", len(h.keys))]
			if !h.present[k] {
				h.willWrite(k)
			}
			ver, err := st.Create(bg, kvs.Record{Key: k, Value: []byte{4}})
			if h.present[k] {
				vAssert(zzIsErr(err, errors.ErrExist), "Create on a present key")
			} else {
				vAssert(err == nil, "Create on an absent key failed")
				h.present[k], h.version[k] = true, ver
			}
		case 6: // PutMany over all keys
			recs := []kvs.Record{}
			for _, k := range h.keys {
				h.willWrite(k)
				recs = append(recs, kvs.Record{Key: k, Value: []byte{5}})
			}
			vAssert(st.PutMany(bg, recs) == nil, "PutMany failed")
			for _, k := range h.keys {
				r, err := st.Get(bg, k)
				vAssert(err == nil, "Get after PutMany failed")
				h.present[k], h.version[k] = true, r.Version
			}
		}
		h.invariant()
		if vParam("YIELD") == 1 {
			vYield() // cooperative: the other goroutines may run here without spending the preemption budget
		}
	}
	vReach("script-done")
	// quiescence: every waiter whose condition holds must return (a lost wake-up shows as a deadlock here);
	// every waiter that returned must be justified
	for _, w := range h.ws {
		if !w.started {
			continue
		}
		if w.sawAbsent || w.sawDifferent || w.cancelled {
			<-w.finished
		} else {
			select {
			case <-w.finished:
				vAssert(false, "a waiter returned although nothing it waits for happened")
			default:
			}
		}
	}
	h.invariant()
	// the remaining waiters give up; nobody may be disturbed and no bookkeeping may be left behind
	for _, w := range h.ws {
		if w.started && !w.cancelled {
			select {
			case <-w.finished:
			default:
				w.cancelled = true
				w.ctx.cancel()
			}
		}
	}
	for _, w := range h.ws {
		if !w.started {
			continue
		}
		<-w.finished
		switch {
		case w.err == nil:
			vAssert(w.sawDifferent, "WaitForVersionChange returned nil although the key never existed with another version during the call")
		case zzIsErr(w.err, errors.ErrNotExist):
			vAssert(w.sawAbsent, "WaitForVersionChange returned ErrNotExist although the key was never absent during the call")
		case w.err == context.Canceled:
			vAssert(w.cancelled, "WaitForVersionChange returned the context's error although the context is not done")
		default:
			vAssert(false, "WaitForVersionChange returned an undocumented error")
		}
	}
	vReach("all-returned")
	s.lock.Lock()
	vAssert(len(s.verChange) == 0, "waiter bookkeeping left behind after all waiters are gone")
	s.lock.Unlock()
}

// C06 (waiter part): a WaitForVersionChange parked on a record whose expiration passes ends with ErrNotExist
// as soon as any operation touches the key (the in-memory backend expires lazily).
func zzC06Waiter() {
	st := New()
	s := st.(*service)
	bg := context.Background()
	t0 := time.Now()
	off := vInt64("expOff")
	vAssume(off >= 1 && off <= 1<<40)
	exp := t0.Add(time.Duration(off))
	r, err := st.Put(bg, kvs.Record{Key: "a", Value: []byte{1}, ExpiresAt: &exp})
	vAssert(err == nil, "Put failed")
	vGuardedBy(s.recs, &s.lock)
	vGuardedBy(s.verChange, &s.lock)
	w := &zzWaiter{key: "a", ver: r.Version, ctx: zzNewCtx(), finished: make(chan struct{})}
	vSpawn("waiter", func() {
		w.err = st.WaitForVersionChange(w.ctx, w.key, w.ver)
		close(w.finished)
	})
	// some operation touches the key; if it finds the record expired the waiter must be released
	sawGone := false
	recreated := false
	// optionally a second waiter on the same record, which may give up before anything happens
	var w2 *zzWaiter
	if vParam("W2") == 1 {
		w2 = &zzWaiter{key: "a", ver: r.Version, ctx: zzNewCtx(), finished: make(chan struct{})}
		vSpawn("waiter2", func() {
			w2.err = st.WaitForVersionChange(w2.ctx, w2.key, w2.ver)
			close(w2.finished)
		})
		if vChoose("cancelSecond", 2) == 1 {
			vYield()
			w2.ctx.cancel()
		}
	}
	replaced := false
	switch vChoose("touch", 8) {
	case 7:
		// the record is replaced by one without expiration before/after its timer fires
		_, e := st.Put(bg, kvs.Record{Key: "a", Value: []byte{9}})
		vAssert(e == nil, "Put failed")
		replaced = true
	case 6:
		// nobody touches the key: time alone passes the expiration; the parked waiter must still end
		vSettle()
		now := time.Now()
		vAssume(exp.Before(now))
		sawGone = true
	case 0:
		_, e := st.Get(bg, "a")
		sawGone = zzIsErr(e, errors.ErrNotExist)
	case 1:
		res, e := st.GetMany(bg, "b", "a")
		sawGone = e == nil && res[1] == nil
	case 2:
		_, e := st.CasByVersion(bg, kvs.Record{Key: "a", Version: "stale-version"})
		sawGone = zzIsErr(e, errors.ErrNotExist)
	case 3:
		e := st.Delete(bg, "a")
		sawGone = true // deleted now or found expired: absent either way
		_ = e
	case 4:
		_, e := st.Create(bg, kvs.Record{Key: "a", Value: []byte{2}})
		sawGone = e == nil
		recreated = e == nil
	case 5:
		it, e := st.ListKeys(bg, "*")
		vAssert(e == nil, "ListKeys failed")
		sawGone = !it.HasNext()
	}
	vReach("touched")
	if replaced {
		<-w.finished
		// (ErrNotExist is legitimate when the old record's expiration had already passed when the waiter looked)
		vAssert(w.err == nil || zzIsErr(w.err, errors.ErrNotExist), "a waiter on a replaced record returned neither nil nor ErrNotExist")
	}
	if sawGone {
		<-w.finished // a lost notification shows as a deadlock here
		if recreated {
			vAssert(w.err == nil || zzIsErr(w.err, errors.ErrNotExist), "waiter result after the expired record was replaced")
		} else {
			vAssert(zzIsErr(w.err, errors.ErrNotExist), "a waiter on an expired (hence deleted) record did not end with ErrNotExist")
		}
		vReach("released")
	}
	w.ctx.cancel()
	<-w.finished
	if w2 != nil {
		w2.ctx.cancel()
		<-w2.finished
		vAssert(w2.err == nil || w2.err == context.Canceled || zzIsErr(w2.err, errors.ErrNotExist), "second waiter returned an undocumented error")
	}
	if replaced {
		// the record written over the expiring one has no expiration: no waiter waking up late may take it away
		g, e := st.Get(bg, "a")
		vAssert(e == nil && len(g.Value) == 1 && g.Value[0] == 9, "a record without expiration, written over an expiring one, disappeared")
	}
	s.lock.Lock()
	vAssert(len(s.verChange) == 0, "waiter bookkeeping left behind")
	s.lock.Unlock()
}

// C06/C07: a record whose expiration is as far ahead as a time.Duration reaches (the "never" idiom now+MaxInt64,
// for which Time.Sub is at or near its maximum) is, for a waiter, a record without expiration: the waiter parks,
// it does not arm an expiry timer that fires at once and go round in circles. time.NewTimer is replaced for
// this entry by a stub that records the requested durations and never fires within the run.
var zzNeverDurations []time.Duration

func zzNeverTimer(d time.Duration) *time.Timer {
	zzNeverDurations = append(zzNeverDurations, d)
	t := new(time.Timer)
	t.C = make(chan time.Time)
	return t
}

func zzNeverTimerStop(t *time.Timer) bool { return true }

func zzC06WaiterNever() {
	st := New()
	s := st.(*service)
	bg := context.Background()
	zzNeverDurations = nil
	exp := time.Now().Add(time.Duration(1<<63 - 1))
	r, err := st.Put(bg, kvs.Record{Key: "a", Value: []byte{1}, ExpiresAt: &exp})
	vAssert(err == nil, "Put failed")
	vGuardedBy(s.recs, &s.lock)
	vGuardedBy(s.verChange, &s.lock)
	w := &zzWaiter{key: "a", ver: r.Version, ctx: zzNewCtx(), finished: make(chan struct{})}
	vSpawn("waiter", func() {
		w.err = st.WaitForVersionChange(w.ctx, w.key, w.ver)
		close(w.finished)
	})
	vSettle()
	for _, d := range zzNeverDurations {
		vAssert(d > 0, "a timer that fires at once was armed for a record that is far from expired (the waiter spins instead of parking)")
	}
	vReach("parked")
	g, e := st.Get(bg, "a")
	vAssert(e == nil && g.Version == r.Version, "a record with a far-future expiration is not there")
	if vChoose("end", 2) == 0 {
		_, e := st.Put(bg, kvs.Record{Key: "a", Value: []byte{2}})
		vAssert(e == nil, "Put failed")
		<-w.finished
		vAssert(w.err == nil, "a waiter on a rewritten record did not return nil")
	} else {
		w.ctx.cancel()
		<-w.finished
		vAssert(w.err == context.Canceled, "a cancelled waiter did not return the context's error")
	}
	for _, d := range zzNeverDurations {
		vAssert(d > 0, "a timer that fires at once was armed for a record that is far from expired (the waiter spins instead of parking)")
	}
	s.lock.Lock()
	vAssert(len(s.verChange) == 0, "waiter bookkeeping left behind")
	s.lock.Unlock()
	vReach("ended")
}
