package gosx

import (
	"fmt"
	"go/types"
	"strconv"
	"strings"

	"golang.org/x/tools/go/ssa"
)

var shimNatives map[string]nativeFn
var natives map[string]nativeFn

func init() {
	shimNatives = map[string]nativeFn{
		"vInt":       func(x *Exec, t *Thread, a []Value, c *callCtx) (Value, nativeStatus) { return x.nd(a[0], "int", 64), nDone },
		"vInt64":     func(x *Exec, t *Thread, a []Value, c *callCtx) (Value, nativeStatus) { return x.nd(a[0], "int64", 64), nDone },
		"vUint64":    func(x *Exec, t *Thread, a []Value, c *callCtx) (Value, nativeStatus) { return x.nd(a[0], "uint64", 64), nDone },
		"vUint32":    func(x *Exec, t *Thread, a []Value, c *callCtx) (Value, nativeStatus) { return x.nd(a[0], "uint32", 32), nDone },
		"vUint16":    func(x *Exec, t *Thread, a []Value, c *callCtx) (Value, nativeStatus) { return x.nd(a[0], "uint16", 16), nDone },
		"vByte":      func(x *Exec, t *Thread, a []Value, c *callCtx) (Value, nativeStatus) { return x.nd(a[0], "byte", 8), nDone },
		"vBool":      func(x *Exec, t *Thread, a []Value, c *callCtx) (Value, nativeStatus) { return x.nd(a[0], "bool", 0), nDone },
		"vRange":     shimRange,
		"vBytes":     shimBytes,
		"vChoose":    shimChoose,
		"vAssume":    shimAssume,
		"vAssert":    shimAssert,
		"vMustPanic": shimMustPanic,
		"vObserve":   shimObserve,
		"vKnownIf":   shimKnownIf,
		"vKnownEnd":  shimKnownEnd,
		"vReach":     shimReach,
		"vSpawn":     shimSpawn,
		"vYield":     func(x *Exec, t *Thread, a []Value, c *callCtx) (Value, nativeStatus) { return nil, nDone },
		"vStep":      func(x *Exec, t *Thread, a []Value, c *callCtx) (Value, nativeStatus) { return nil, nDone },
		"vGuardedBy": shimGuardedBy,
		"vSeq":       func(x *Exec, t *Thread, a []Value, c *callCtx) (Value, nativeStatus) { return x.F.BV(64, uint64(x.seqNo)), nDone },
		"vParam":     shimParam,
		"vNow":       func(x *Exec, t *Thread, a []Value, c *callCtx) (Value, nativeStatus) { return x.mkTime(x.readClock()), nDone },
		"vToken":     shimToken,
		"vAdvanceClock": shimAdvanceClock,
		"vNative":    func(x *Exec, t *Thread, a []Value, c *callCtx) (Value, nativeStatus) { return x.F.False, nDone },
		"vWaitOthers": shimWaitOthers,
		"vSettle":     shimSettle,
		"vConcrete":  shimConcrete,
		"vSameCell":  shimSameCell,
		"vHeld":      shimHeld,
		"vThreadsLive": func(x *Exec, t *Thread, a []Value, c *callCtx) (Value, nativeStatus) {
			n := 0
			for _, o := range x.threads {
				if !o.done && o != t {
					n++
				}
			}
			return x.F.BV(64, uint64(n)), nDone
		},
	}
	natives = map[string]nativeFn{
		"(*sync.Mutex).Lock":      nMutexLock,
		"(*sync.Mutex).Unlock":    nMutexUnlock,
		"(*sync.Mutex).TryLock":   nMutexTryLock,
		"(*sync.RWMutex).Lock":    nMutexLock,
		"(*sync.RWMutex).Unlock":  nMutexUnlock,
		"(*sync.RWMutex).RLock":   nMutexLock,
		"(*sync.RWMutex).RUnlock": nMutexUnlock,
		"(*sync.Pool).Get":        nPoolGet,
		"(*sync.Pool).Put":        nPoolPut,

		"sync/atomic.AddInt32":              nAtomicAdd,
		"sync/atomic.AddInt64":              nAtomicAdd,
		"sync/atomic.AddUint32":             nAtomicAdd,
		"sync/atomic.AddUint64":             nAtomicAdd,
		"sync/atomic.LoadInt32":             nAtomicLoad,
		"sync/atomic.LoadInt64":             nAtomicLoad,
		"sync/atomic.LoadUint32":            nAtomicLoad,
		"sync/atomic.LoadUint64":            nAtomicLoad,
		"sync/atomic.LoadPointer":           nAtomicLoad,
		"sync/atomic.StoreInt32":            nAtomicStore,
		"sync/atomic.StoreInt64":            nAtomicStore,
		"sync/atomic.StoreUint32":           nAtomicStore,
		"sync/atomic.StoreUint64":           nAtomicStore,
		"sync/atomic.StorePointer":          nAtomicStore,
		"sync/atomic.CompareAndSwapInt32":   nAtomicCAS,
		"sync/atomic.CompareAndSwapInt64":   nAtomicCAS,
		"sync/atomic.CompareAndSwapUint32":  nAtomicCAS,
		"sync/atomic.CompareAndSwapUint64":  nAtomicCAS,
		"sync/atomic.CompareAndSwapPointer": nAtomicCAS,
		"sync/atomic.SwapInt32":             nAtomicSwap,
		"sync/atomic.SwapInt64":             nAtomicSwap,
		"(*sync/atomic.Value).Load":         nAValueLoad,
		"(*sync/atomic.Value).Store":        nAValueStore,
		"(*sync/atomic.Value).CompareAndSwap": nAValueCAS,

		"fmt.Errorf":  nErrorf,
		"fmt.Sprintf": nSprintf,
		"fmt.Sprint":  nSprint,
		"fmt.Sprintln": nSprint,
		"fmt.Printf":  func(x *Exec, t *Thread, a []Value, c *callCtx) (Value, nativeStatus) { return Tuple{x.F.BV(64, 0), Iface{}}, nDone },
		"fmt.Println": func(x *Exec, t *Thread, a []Value, c *callCtx) (Value, nativeStatus) { return Tuple{x.F.BV(64, 0), Iface{}}, nDone },

		"os.Getpagesize": func(x *Exec, t *Thread, a []Value, c *callCtx) (Value, nativeStatus) {
			ps := x.P.Cfg.Params["pagesize"]
			if ps == 0 {
				ps = 4096
			}
			return x.F.BV(64, uint64(ps)), nDone
		},
		"runtime.Gosched": func(x *Exec, t *Thread, a []Value, c *callCtx) (Value, nativeStatus) { return nil, nDone },

		"github.com/acquirecloud/golibs/cast.StringToByteArray": nStringToBytes,
		"github.com/acquirecloud/golibs/cast.ByteArrayToString": nBytesToString,

		"internal/bytealg.IndexByteString": nIndexByteString,
		"internal/bytealg.IndexByte":       nIndexByte,
		"internal/bytealg.CountString":     nCountString,

		"time.Now":            func(x *Exec, t *Thread, a []Value, c *callCtx) (Value, nativeStatus) { return x.mkTime(x.readClock()), nDone },
		"(time.Time).Add":     nTimeAdd,
		"(time.Time).Sub":     nTimeSub,
		"(time.Time).Before":  nTimeBefore,
		"(time.Time).After":   nTimeAfter,
		"(time.Time).Equal":   nTimeEqual,
		"(time.Time).IsZero":  nTimeIsZero,
		"(time.Time).UTC":     func(x *Exec, t *Thread, a []Value, c *callCtx) (Value, nativeStatus) { return a[0], nDone },
		"(time.Time).Local":   func(x *Exec, t *Thread, a []Value, c *callCtx) (Value, nativeStatus) { return a[0], nDone },
		"(time.Time).UnixNano": func(x *Exec, t *Thread, a []Value, c *callCtx) (Value, nativeStatus) { return x.timeNs(a[0]), nDone },
		"(time.Time).String":  func(x *Exec, t *Thread, a []Value, c *callCtx) (Value, nativeStatus) { return Str{K: "<time>"}, nDone },
		"time.Unix": func(x *Exec, t *Thread, a []Value, c *callCtx) (Value, nativeStatus) {
			sec, nsec := a[0].(*Term), a[1].(*Term)
			return x.mkTime(x.F.Add(x.F.BinBV(OpMul, sec, x.F.BV(64, 1000000000)), nsec)), nDone
		},
		"time.Since": func(x *Exec, t *Thread, a []Value, c *callCtx) (Value, nativeStatus) {
			return nTimeSub(x, t, []Value{x.mkTime(x.readClock()), a[0]}, c)
		},
		"time.Until": func(x *Exec, t *Thread, a []Value, c *callCtx) (Value, nativeStatus) {
			return nTimeSub(x, t, []Value{a[0], x.mkTime(x.readClock())}, c)
		},
		"(time.Duration).String": func(x *Exec, t *Thread, a []Value, c *callCtx) (Value, nativeStatus) { return Str{K: "<duration>"}, nDone },
		"strings.Join":      nStringsJoin,
		"strings.Index":     nStringsIndex,
		"strings.Split":     nStringsSplit,
		"strings.Contains":  nStringsContains,
		"strings.HasPrefix": nStringsHasPrefix,
		"strings.HasSuffix": nStringsHasSuffix,
		"time.NewTimer":          nNewTimer,
		"(*time.Timer).Stop":     nTimerStop,
	}
}

// ---------------------------------------------------------------------
// shim

func (x *Exec) argStr(v Value) string {
	s, ok := v.(Str)
	if !ok {
		return "?"
	}
	return x.strDisplay(s)
}

func (x *Exec) nd(nameV Value, kind string, w int) *Term {
	name := x.argStr(nameV)
	x.ndCount++
	v := x.F.Var(fmt.Sprintf("%s#%d", name, x.ndCount), w)
	x.ndLog = append(x.ndLog, ndEntry{Name: name, Kind: kind, Terms: []*Term{v}, W: w})
	return v
}

func shimRange(x *Exec, t *Thread, a []Value, c *callCtx) (Value, nativeStatus) {
	v := x.nd(a[0], "int", 64)
	lo, hi := a[1].(*Term), a[2].(*Term)
	x.assume(x.F.Cmp(OpSle, lo, v))
	x.assume(x.F.Cmp(OpSle, v, hi))
	if lo.IsConst() && hi.IsConst() {
		// a fresh variable in a constant range: satisfiable iff the range is not empty
		if lo.SVal() > hi.SVal() {
			x.end("infeasible", "")
		}
		return v, nDone
	}
	if x.check(nil) != Sat {
		x.end("infeasible", "")
	}
	return v, nDone
}

func shimBytes(x *Exec, t *Thread, a []Value, c *callCtx) (Value, nativeStatus) {
	name := x.argStr(a[0])
	n := int(x.concretize(a[1].(*Term), "vBytes length"))
	x.ndCount++
	arr := x.newArrayCell(types.Typ[types.Uint8], n)
	e := ndEntry{Name: name, Kind: "bytes", W: 8}
	for i := 0; i < n; i++ {
		v := x.F.Var(fmt.Sprintf("%s#%d[%d]", name, x.ndCount, i), 8)
		arr.Sub[i].V = v
		e.Terms = append(e.Terms, v)
	}
	if n == 0 {
		e.Conc = []uint64{}
	}
	x.ndLog = append(x.ndLog, e)
	return Slice{Arr: arr, Off: 0, Len: n, Cap: n, Elem: types.Typ[types.Uint8]}, nDone
}

func shimChoose(x *Exec, t *Thread, a []Value, c *callCtx) (Value, nativeStatus) {
	name := x.argStr(a[0])
	n := int(x.concretize(a[1].(*Term), "vChoose n"))
	if n <= 0 {
		x.end("infeasible", "")
	}
	ch := 0
	if n > 1 {
		ch = x.decide(n, nil)
	}
	x.ndCount++
	x.ndLog = append(x.ndLog, ndEntry{Name: name, Kind: "choose", Conc: []uint64{uint64(ch)}})
	return x.F.BV(64, uint64(ch)), nDone
}

func shimConcrete(x *Exec, t *Thread, a []Value, c *callCtx) (Value, nativeStatus) {
	v := a[0].(*Term)
	return x.F.BV(v.W, x.concretize(v, "vConcrete")), nDone
}

func shimAssume(x *Exec, t *Thread, a []Value, c *callCtx) (Value, nativeStatus) {
	cond := a[0].(*Term)
	switch x.known(cond) {
	case 1:
		return nil, nDone
	case -1:
		x.end("infeasible", "")
	}
	// no feasibility query here: an unsatisfiable pc makes every later branch/assert side infeasible and
	// vReach (the vacuity witness) checks satisfiability explicitly.
	x.assume(cond)
	x.pcUnchecked = true
	return nil, nDone
}

func shimAssert(x *Exec, t *Thread, a []Value, c *callCtx) (Value, nativeStatus) {
	cond := a[0].(*Term)
	msg := x.argStr(a[1])
	site := msg + " @" + x.lastPos
	x.asserts[site] = true
	if x.cross != nil && !cond.IsConst() && x.known(cond) == 0 && !x.replaying() {
		x.P.obligN++
		if n := x.P.Cfg.CrossEvery; n > 0 && x.P.obligN%int64(n) == 0 {
			x.crossCheck(x.F.Not(cond))
		}
	}
	if !x.branch(cond) {
		x.violate("assert", msg, nil)
	}
	return nil, nDone
}

func shimMustPanic(x *Exec, t *Thread, a []Value, c *callCtx) (Value, nativeStatus) {
	cl := a[0].(*Closure)
	x.invoke(t, cl, nil, func(ret Value) (Value, bool) { return x.F.False, true }, false)
	// mark the new frame as a barrier
	x.top(t).barrier = true
	return nil, nPending
}

func shimObserve(x *Exec, t *Thread, a []Value, c *callCtx) (Value, nativeStatus) {
	if s, ok := a[0].(Slice); ok {
		parts := []string{}
		for i := 0; i < s.Len; i++ {
			parts = append(parts, x.describe(x.loadCell(s.Arr.Sub[s.Off+i])))
		}
		x.observed = append(x.observed, strings.Join(parts, " "))
	}
	return nil, nDone
}

func shimKnownIf(x *Exec, t *Thread, a []Value, c *callCtx) (Value, nativeStatus) {
	id := x.argStr(a[0])
	cond := a[1].(*Term)
	if x.branch(cond) {
		x.curKnown = append(x.curKnown, id)
		return x.F.True, nDone
	}
	return x.F.False, nDone
}

func shimKnownEnd(x *Exec, t *Thread, a []Value, c *callCtx) (Value, nativeStatus) {
	if len(x.curKnown) > 0 {
		x.curKnown = x.curKnown[:len(x.curKnown)-1]
	}
	return nil, nDone
}

func shimReach(x *Exec, t *Thread, a []Value, c *callCtx) (Value, nativeStatus) {
	if x.pcUnchecked && !x.replaying() {
		if x.check(nil) != Sat {
			x.end("infeasible", "")
		}
		x.pcUnchecked = false
	}
	x.reached[x.argStr(a[0])] = true
	return nil, nDone
}

func shimSpawn(x *Exec, t *Thread, a []Value, c *callCtx) (Value, nativeStatus) {
	name := x.argStr(a[0])
	x.spawnThread(name, a[1], nil)
	return nil, nDone
}

func shimGuardedBy(x *Exec, t *Thread, a []Value, c *callCtx) (Value, nativeStatus) {
	obj := a[0].(Iface)
	mu := a[1].(Ptr)
	switch o := obj.V.(type) {
	case Ptr:
		x.guardTree(o.C, mu.C)
	case *MapObj:
		o.Guard = mu.C
	}
	return nil, nDone
}

func shimParam(x *Exec, t *Thread, a []Value, c *callCtx) (Value, nativeStatus) {
	name := x.argStr(a[0])
	v, ok := x.P.Cfg.Params[name]
	if !ok {
		x.end("inconclusive", "missing parameter "+name)
	}
	return x.F.BV(64, uint64(int64(v))), nDone
}

// vToken returns a fresh concrete string distinct from all earlier tokens.
func shimToken(x *Exec, t *Thread, a []Value, c *callCtx) (Value, nativeStatus) {
	x.tokens++
	return Str{K: fmt.Sprintf("%s%04d", x.argStr(a[0]), x.tokens)}, nDone
}

// vWaitOthers blocks the caller until every other thread has finished (a thread that can never finish
// makes this a deadlock, which is reported).
func shimWaitOthers(x *Exec, t *Thread, a []Value, c *callCtx) (Value, nativeStatus) {
	allDone := func() bool {
		for _, o := range x.threads {
			if o != t && !o.done {
				return false
			}
		}
		return true
	}
	if allDone() {
		return nil, nDone
	}
	x.block(t, "waiting for all other threads to finish", allDone)
	return nil, nBlocked
}

// vSettle blocks the caller until every other goroutine is finished or blocked (timers excluded):
// the system has gone quiet and only the passage of time can wake it.
func shimSettle(x *Exec, t *Thread, a []Value, c *callCtx) (Value, nativeStatus) {
	quiet := func() bool {
		for _, o := range x.threads {
			if o == t || o.done || o.isEnv {
				continue
			}
			if o.blocked == nil || o.blocked() {
				return false
			}
		}
		return true
	}
	if quiet() {
		return nil, nDone
	}
	x.block(t, "waiting for the other threads to settle", quiet)
	return nil, nBlocked
}

// vAdvanceClock lets d nanoseconds pass (d >= 0 is assumed): later clock readings are at least d later.
func shimAdvanceClock(x *Exec, t *Thread, a []Value, c *callCtx) (Value, nativeStatus) {
	d := a[0].(*Term)
	x.assume(x.F.Cmp(OpSle, x.F.BV(64, 0), d))
	cur := x.clock
	if cur == nil {
		cur = x.readClock()
	}
	x.clock = x.F.Add(cur, d)
	return nil, nDone
}

func shimSameCell(x *Exec, t *Thread, a []Value, c *callCtx) (Value, nativeStatus) {
	s1, s2 := a[0].(Slice), a[1].(Slice)
	if s1.Arr == nil || s2.Arr == nil {
		return x.F.False, nDone
	}
	// as the native twin: two slices share memory only if both can reach at least one element
	return x.F.Bool(s1.Arr == s2.Arr && s1.Cap > 0 && s2.Cap > 0), nDone
}

func shimHeld(x *Exec, t *Thread, a []Value, c *callCtx) (Value, nativeStatus) {
	mu := a[0].(Ptr)
	return x.F.Bool(x.mutexOwn[mu.C] != nil), nDone
}

// ---------------------------------------------------------------------
// sync

func nMutexLock(x *Exec, t *Thread, a []Value, c *callCtx) (Value, nativeStatus) {
	p := a[0].(Ptr)
	if p.IsNil() {
		x.goPanic("nil pointer dereference (Mutex.Lock)")
	}
	if !x.mutexLock(t, p.C) {
		return nil, nBlocked
	}
	return nil, nDone
}

func nMutexUnlock(x *Exec, t *Thread, a []Value, c *callCtx) (Value, nativeStatus) {
	p := a[0].(Ptr)
	x.mutexUnlock(t, p.C)
	return nil, nDone
}

func nMutexTryLock(x *Exec, t *Thread, a []Value, c *callCtx) (Value, nativeStatus) {
	p := a[0].(Ptr)
	if x.mutexOwn[p.C] != nil {
		return x.F.False, nDone
	}
	x.mutexOwn[p.C] = t
	return x.F.True, nDone
}

type poolState struct {
	items []Value
}

func poolNewField(c *Cell) *Cell {
	st := c.Typ.Underlying().(*types.Struct)
	for i := 0; i < st.NumFields(); i++ {
		if st.Field(i).Name() == "New" {
			return c.Sub[i]
		}
	}
	return nil
}

func nPoolGet(x *Exec, t *Thread, a []Value, c *callCtx) (Value, nativeStatus) {
	p := a[0].(Ptr)
	ps := x.pools[p.C]
	n := 0
	if ps != nil {
		n = len(ps.items)
	}
	// options: the pooled items in the order the real single-P implementation would return them
	// (index 0 first), or New() (a pool may be emptied by the GC at any time).
	ch := n
	if n > 0 {
		if x.P.Cfg.PoolAdversarial {
			ch = x.decide(n+1, nil)
		} else {
			ch = 0
		}
	}
	if ch < n {
		v := ps.items[ch]
		ps.items = append(append([]Value{}, ps.items[:ch]...), ps.items[ch+1:]...)
		return v, nDone
	}
	nf := poolNewField(p.C)
	cl, _ := nf.V.(*Closure)
	if cl == nil {
		return Iface{}, nDone
	}
	x.invoke(t, cl, nil, c.onRet, c.discard)
	return nil, nPending
}

func nPoolPut(x *Exec, t *Thread, a []Value, c *callCtx) (Value, nativeStatus) {
	p := a[0].(Ptr)
	ps := x.pools[p.C]
	if ps == nil {
		ps = &poolState{}
		x.pools[p.C] = ps
	}
	if iv, ok := a[1].(Iface); ok && iv.T == nil {
		return nil, nDone
	}
	// real sync.Pool (one P, no GC): first Put goes to the private slot, later ones to the head of the shared list;
	// Get takes private first, then the shared head.
	if len(ps.items) == 0 {
		ps.items = []Value{a[1]}
	} else {
		ps.items = append([]Value{ps.items[0], a[1]}, ps.items[1:]...)
	}
	return nil, nDone
}

func nAtomicAdd(x *Exec, t *Thread, a []Value, c *callCtx) (Value, nativeStatus) {
	p := a[0].(Ptr)
	x.seqNo++
	nv := x.F.Add(x.load(p).(*Term), a[1].(*Term))
	x.store(p, nv)
	return nv, nDone
}

func nAtomicLoad(x *Exec, t *Thread, a []Value, c *callCtx) (Value, nativeStatus) {
	return x.load(a[0].(Ptr)), nDone
}

func nAtomicStore(x *Exec, t *Thread, a []Value, c *callCtx) (Value, nativeStatus) {
	x.seqNo++
	x.store(a[0].(Ptr), a[1])
	return nil, nDone
}

func nAtomicSwap(x *Exec, t *Thread, a []Value, c *callCtx) (Value, nativeStatus) {
	x.seqNo++
	old := x.load(a[0].(Ptr))
	x.store(a[0].(Ptr), a[1])
	return old, nDone
}

func nAtomicCAS(x *Exec, t *Thread, a []Value, c *callCtx) (Value, nativeStatus) {
	p := a[0].(Ptr)
	x.seqNo++
	cur := x.load(p)
	eq := x.valueEq(cur, a[1])
	if x.branch(eq) {
		x.store(p, a[2])
		return x.F.True, nDone
	}
	return x.F.False, nDone
}

func nAValueLoad(x *Exec, t *Thread, a []Value, c *callCtx) (Value, nativeStatus) {
	p := a[0].(Ptr)
	return x.loadCell(p.C.Sub[0]), nDone
}

func nAValueStore(x *Exec, t *Thread, a []Value, c *callCtx) (Value, nativeStatus) {
	p := a[0].(Ptr)
	x.seqNo++
	iv := a[1].(Iface)
	if iv.T == nil {
		x.goPanic("sync/atomic: store of nil value into Value")
	}
	old := x.loadCell(p.C.Sub[0]).(Iface)
	if old.T != nil && !types.Identical(old.T, iv.T) {
		x.goPanic("sync/atomic: store of inconsistently typed value into Value")
	}
	x.storeCell(p.C.Sub[0], iv)
	return nil, nDone
}

func nAValueCAS(x *Exec, t *Thread, a []Value, c *callCtx) (Value, nativeStatus) {
	p := a[0].(Ptr)
	x.seqNo++
	nv := a[2].(Iface)
	if nv.T == nil {
		x.goPanic("sync/atomic: compare and swap of nil value into Value")
	}
	old := x.loadCell(p.C.Sub[0])
	if x.branch(x.valueEq(old, a[1])) {
		x.storeCell(p.C.Sub[0], nv)
		return x.F.True, nDone
	}
	return x.F.False, nDone
}

// ---------------------------------------------------------------------
// cast, bytealg

func nStringToBytes(x *Exec, t *Thread, a []Value, c *callCtx) (Value, nativeStatus) {
	s := a[0].(Str)
	bt := types.Typ[types.Uint8]
	if s.Arr == nil {
		// string constants live in read-only memory; materialise a private array (writes would fault natively)
		if len(s.K) == 0 {
			return Slice{Elem: bt}, nDone
		}
		bs := x.strBytes(s)
		arr := x.newArrayCell(bt, len(bs))
		for i, b := range bs {
			arr.Sub[i].V = b
		}
		return Slice{Arr: arr, Len: len(bs), Cap: len(bs), Elem: bt}, nDone
	}
	return Slice{Arr: s.Arr, Off: s.Off, Len: s.Len, Cap: s.Len, Elem: bt}, nDone
}

func nBytesToString(x *Exec, t *Thread, a []Value, c *callCtx) (Value, nativeStatus) {
	s := a[0].(Slice)
	if s.Arr == nil || s.Len == 0 {
		return Str{}, nDone
	}
	return Str{Arr: s.Arr, Off: s.Off, Len: s.Len}, nDone
}

func (x *Exec) indexByteTerms(bs []*Term, ch *Term) *Term {
	res := x.F.BV(64, ^uint64(0))
	for i := len(bs) - 1; i >= 0; i-- {
		res = x.F.Ite(x.F.Eq(bs[i], ch), x.F.BV(64, uint64(i)), res)
	}
	return res
}

func nIndexByteString(x *Exec, t *Thread, a []Value, c *callCtx) (Value, nativeStatus) {
	return x.indexByteTerms(x.strBytes(a[0].(Str)), a[1].(*Term)), nDone
}

func nIndexByte(x *Exec, t *Thread, a []Value, c *callCtx) (Value, nativeStatus) {
	s := a[0].(Slice)
	bs := make([]*Term, s.Len)
	for i := range bs {
		bs[i] = x.loadCell(s.Arr.Sub[s.Off+i]).(*Term)
	}
	return x.indexByteTerms(bs, a[1].(*Term)), nDone
}

func nCountString(x *Exec, t *Thread, a []Value, c *callCtx) (Value, nativeStatus) {
	bs := x.strBytes(a[0].(Str))
	res := x.F.BV(64, 0)
	for _, b := range bs {
		res = x.F.Add(res, x.F.Ite(x.F.Eq(b, a[1].(*Term)), x.F.BV(64, 1), x.F.BV(64, 0)))
	}
	return res, nDone
}

// ---------------------------------------------------------------------
// fmt

func (x *Exec) errText(iv Iface) string {
	if iv.T == nil {
		return "<nil>"
	}
	if p, ok := iv.V.(Ptr); ok && p.C != nil && len(p.C.Sub) > 0 {
		if s, ok := p.C.Sub[0].V.(Str); ok {
			return x.strDisplay(s)
		}
	}
	return "<" + iv.T.String() + ">"
}

func (x *Exec) fmtArg(v Value, verb byte) string {
	switch a := v.(type) {
	case Iface:
		if a.T == nil {
			return "<nil>"
		}
		if types.Implements(a.T, errorIface) {
			return x.errText(a)
		}
		return x.fmtArg(a.V, verb)
	case *Term:
		if a.IsConst() {
			if a.W == 0 {
				return strconv.FormatBool(a.Val == 1)
			}
			return strconv.FormatInt(a.SVal(), 10)
		}
		return "?"
	case Str:
		if verb == 'q' {
			return strconv.Quote(x.strDisplay(a))
		}
		return x.strDisplay(a)
	case Ptr:
		if a.IsNil() {
			return "<nil>"
		}
		return "0xptr"
	}
	return "?"
}

var errorIface = types.Universe.Lookup("error").Type().Underlying().(*types.Interface)

// formatArgs renders a printf-style format; returns text and the %w operand (if any).
func (x *Exec) formatArgs(format string, args []Value) (string, []Iface) {
	var sb strings.Builder
	var wrapped []Iface
	ai := 0
	for i := 0; i < len(format); i++ {
		ch := format[i]
		if ch != '%' {
			sb.WriteByte(ch)
			continue
		}
		i++
		// flags / width
		for i < len(format) && strings.IndexByte("+-# 0123456789.", format[i]) >= 0 {
			i++
		}
		if i >= len(format) {
			break
		}
		verb := format[i]
		if verb == '%' {
			sb.WriteByte('%')
			continue
		}
		if ai >= len(args) {
			sb.WriteString("%!" + string(verb) + "(MISSING)")
			continue
		}
		arg := args[ai]
		ai++
		if verb == 'w' {
			if iv, ok := arg.(Iface); ok && iv.T != nil {
				wrapped = append(wrapped, iv)
			}
		}
		sb.WriteString(x.fmtArg(arg, verb))
	}
	return sb.String(), wrapped
}

func (x *Exec) sliceValues(v Value) []Value {
	s, ok := v.(Slice)
	if !ok {
		return nil
	}
	out := make([]Value, s.Len)
	for i := range out {
		out[i] = x.loadCell(s.Arr.Sub[s.Off+i])
	}
	return out
}

func (x *Exec) namedType(pkg, name string) types.Type {
	p := x.P.Prog.ImportedPackage(pkg)
	if p == nil {
		x.unsupported("package not loaded: " + pkg)
	}
	m := p.Members[name]
	if m == nil {
		x.unsupported("type not found: " + pkg + "." + name)
	}
	return m.Type()
}

func (x *Exec) newErrorString(msg string) Iface {
	tt := x.namedType("errors", "errorString")
	c := x.newCell(tt)
	c.Sub[0].V = Str{K: msg}
	return Iface{T: types.NewPointer(tt), V: Ptr{C: c}}
}

func nErrorf(x *Exec, t *Thread, a []Value, c *callCtx) (Value, nativeStatus) {
	format, ok := x.strConcrete(a[0].(Str))
	if !ok {
		format = x.strDisplay(a[0].(Str))
	}
	msg, wrapped := x.formatArgs(format, x.sliceValues(a[1]))
	if len(wrapped) == 1 {
		tt := x.namedType("fmt", "wrapError")
		cell := x.newCell(tt)
		cell.Sub[0].V = Str{K: msg}
		cell.Sub[1].V = wrapped[0]
		return Iface{T: types.NewPointer(tt), V: Ptr{C: cell}}, nDone
	}
	if len(wrapped) > 1 {
		// several %w verbs: *fmt.wrapErrors{msg, errs}
		tt := x.namedType("fmt", "wrapErrors")
		cell := x.newCell(tt)
		cell.Sub[0].V = Str{K: msg}
		et := types.Universe.Lookup("error").Type()
		arr := x.newArrayCell(et, len(wrapped))
		for i, w := range wrapped {
			arr.Sub[i].V = w
		}
		cell.Sub[1].V = Slice{Arr: arr, Len: len(wrapped), Cap: len(wrapped), Elem: et}
		return Iface{T: types.NewPointer(tt), V: Ptr{C: cell}}, nDone
	}
	return x.newErrorString(msg), nDone
}

func nSprintf(x *Exec, t *Thread, a []Value, c *callCtx) (Value, nativeStatus) {
	format, ok := x.strConcrete(a[0].(Str))
	if !ok {
		format = x.strDisplay(a[0].(Str))
	}
	args := x.sliceValues(a[1])
	// exact result for the common "%s" concatenations with symbolic strings
	if strings.Count(format, "%") == strings.Count(format, "%s") {
		parts := strings.Split(format, "%s")
		if len(parts)-1 == len(args) {
			allStr := true
			for _, v := range args {
				if _, ok := v.(Iface); !ok {
					allStr = false
					break
				}
				if _, ok := v.(Iface).V.(Str); !ok {
					allStr = false
				}
			}
			if allStr {
				var bs []*Term
				for i, p := range parts {
					bs = append(bs, x.strBytes(Str{K: p})...)
					if i < len(args) {
						bs = append(bs, x.strBytes(args[i].(Iface).V.(Str))...)
					}
				}
				return x.strFromBytes(bs), nDone
			}
		}
	}
	msg, _ := x.formatArgs(format, args)
	return Str{K: msg}, nDone
}

func nSprint(x *Exec, t *Thread, a []Value, c *callCtx) (Value, nativeStatus) {
	var parts []string
	for _, v := range x.sliceValues(a[0]) {
		parts = append(parts, x.fmtArg(v, 'v'))
	}
	return Str{K: strings.Join(parts, " ")}, nDone
}

// ---------------------------------------------------------------------
// time

func (x *Exec) mkTime(ns *Term) Value {
	return &StructVal{F: []Value{x.F.BV(64, 0), ns, Ptr{}}}
}

func (x *Exec) timeNs(v Value) *Term {
	return v.(*StructVal).F[1].(*Term)
}

// Instants are UNSIGNED 64-bit nanoseconds since the Unix epoch (representable up to the year 2554), clock readings
// are assumed to lie in [2^60, 2^61] (years 2006..2043): now + d does not wrap for any non-negative Duration, and
// UnixNano() of an instant beyond 2262 wraps negative exactly as the real one does.
const clockMin = uint64(1) << 60
const clockMax = uint64(1) << 61

// readClock returns a fresh reading >= the previous one.
func (x *Exec) readClock() *Term {
	if x.P.Cfg.PromptClock {
		// time only passes when a timer fires (see nNewTimer): one symbolic start instant
		if x.clock == nil {
			x.clock = x.F.BV(64, clockMin+(1<<40))
		}
		return x.clock
	}
	if x.P.Cfg.FixedClock {
		if x.clock == nil {
			x.clock = x.F.BV(64, clockMin+(1<<40))
		}
		return x.clock
	}
	x.nowCount++
	v := x.F.Var(fmt.Sprintf("now#%d", x.nowCount), 64)
	x.ndLog = append(x.ndLog, ndEntry{Name: "now", Kind: "clock", Terms: []*Term{v}, W: 64})
	if x.clock == nil {
		x.assume(x.F.Cmp(OpUle, x.F.BV(64, clockMin), v))
	} else {
		x.assume(x.F.Cmp(OpUle, x.clock, v))
	}
	x.assume(x.F.Cmp(OpUle, v, x.F.BV(64, clockMax)))
	x.clock = v
	return v
}

func nTimeAdd(x *Exec, t *Thread, a []Value, c *callCtx) (Value, nativeStatus) {
	return x.mkTime(x.F.Add(x.timeNs(a[0]), a[1].(*Term))), nDone
}
// Sub: plain 64-bit difference. It is exact whenever the two instants are at most MaxInt64 ns apart, which holds for
// every instant a harness can build (clock readings in [2^60, 2^61] plus at most one Duration); the saturation the
// real Sub applies beyond that distance is therefore never needed (instants further apart are outside the model).
func nTimeSub(x *Exec, t *Thread, a []Value, c *callCtx) (Value, nativeStatus) {
	return x.F.Sub(x.timeNs(a[0]), x.timeNs(a[1])), nDone
}
func nTimeBefore(x *Exec, t *Thread, a []Value, c *callCtx) (Value, nativeStatus) {
	return x.F.Cmp(OpUlt, x.timeNs(a[0]), x.timeNs(a[1])), nDone
}
func nTimeAfter(x *Exec, t *Thread, a []Value, c *callCtx) (Value, nativeStatus) {
	return x.F.Cmp(OpUlt, x.timeNs(a[1]), x.timeNs(a[0])), nDone
}
func nTimeEqual(x *Exec, t *Thread, a []Value, c *callCtx) (Value, nativeStatus) {
	return x.F.Eq(x.timeNs(a[0]), x.timeNs(a[1])), nDone
}
func nTimeIsZero(x *Exec, t *Thread, a []Value, c *callCtx) (Value, nativeStatus) {
	return x.F.Eq(x.timeNs(a[0]), x.F.BV(64, 0)), nDone
}

type timerObj struct {
	ch    *ChanObj
	due   *Term
	armed bool
	cell  *Cell
	th    *Thread
}

func nNewTimer(x *Exec, t *Thread, a []Value, c *callCtx) (Value, nativeStatus) {
	d := a[0].(*Term)
	tt := x.namedType("time", "Timer")
	cell := x.newCell(tt)
	x.objID++
	ch := &ChanObj{Cap: 1, Elem: x.namedType("time", "Time"), ID: x.objID, Label: "timer"}
	cell.Sub[0].V = ch
	now := x.clock
	if now == nil {
		now = x.readClock()
	}
	tm := &timerObj{ch: ch, due: x.F.Add(now, d), armed: true, cell: cell}
	x.timers = append(x.timers, tm)
	// environment thread that fires the timer
	x.nextTID++
	th := &Thread{id: x.nextTID, name: "timer", held: map[*Cell]int{}, isEnv: true}
	th.blocked = func() bool { return tm.armed }
	th.why = "timer armed"
	tm.th = th
	fire := &Closure{Native: func(x *Exec, args []Value) Value {
		if !tm.armed {
			return nil
		}
		tm.armed = false
		// the clock has reached the due time
		if x.P.Cfg.PromptClock {
			// prompt environment: the earliest timer fires, exactly when due (or now, if that is later); 1 ns passes
			npc := len(x.pc)
			for _, o := range x.timers {
				if o != tm && o.armed {
					x.assume(x.F.Cmp(OpUle, tm.due, o.due))
				}
			}
			if len(x.pc) > npc && x.check(nil) != Sat {
				x.end("infeasible", "")
			}
			cur := x.readClock()
			late := x.F.Cmp(OpUlt, cur, tm.due)
			x.clock = x.F.Add(x.F.Ite(late, tm.due, cur), x.F.BV(64, 1))
		} else if !x.P.Cfg.FixedClock {
			nv := x.readClock()
			// the channel send happens at or after the due time and the next reading is later still
			x.assume(x.F.Cmp(OpUlt, tm.due, nv))
			if x.check(nil) != Sat {
				x.end("infeasible", "")
			}
		}
		if len(ch.Buf) < ch.Cap {
			ch.Buf = append(ch.Buf, x.mkTime(x.clock))
		}
		x.seqNo++
		return nil
	}}
	th.frames = nil
	th.native = fire
	x.threads = append(x.threads, th)
	return Ptr{C: cell}, nDone
}

func nTimerStop(x *Exec, t *Thread, a []Value, c *callCtx) (Value, nativeStatus) {
	p := a[0].(Ptr)
	for _, tm := range x.timers {
		if tm.cell == p.C {
			was := tm.armed
			tm.armed = false
			if was {
				tm.th.done = true
			}
			return x.F.Bool(was), nDone
		}
	}
	return x.F.False, nDone
}

var _ = ssa.BuilderMode(0)

// ---------------------------------------------------------------------
// strings (exact for any content: Join; concrete arguments only: Index, Split, Contains)

func nStringsJoin(x *Exec, t *Thread, a []Value, c *callCtx) (Value, nativeStatus) {
	elems := x.sliceValues(a[0])
	sep := a[1].(Str)
	var bs []*Term
	for i, e := range elems {
		if i > 0 {
			bs = append(bs, x.strBytes(sep)...)
		}
		bs = append(bs, x.strBytes(e.(Str))...)
	}
	return x.strFromBytes(bs), nDone
}

func (x *Exec) twoConcrete(a []Value) (string, string, bool) {
	s1, ok1 := x.strConcrete(a[0].(Str))
	s2, ok2 := x.strConcrete(a[1].(Str))
	return s1, s2, ok1 && ok2
}

func nStringsIndex(x *Exec, t *Thread, a []Value, c *callCtx) (Value, nativeStatus) {
	s1, s2, ok := x.twoConcrete(a)
	if !ok {
		return nil, nDecline
	}
	return x.F.BV(64, uint64(int64(strings.Index(s1, s2)))), nDone
}

func nStringsContains(x *Exec, t *Thread, a []Value, c *callCtx) (Value, nativeStatus) {
	s1, s2, ok := x.twoConcrete(a)
	if !ok {
		return nil, nDecline
	}
	return x.F.Bool(strings.Contains(s1, s2)), nDone
}

func nStringsHasPrefix(x *Exec, t *Thread, a []Value, c *callCtx) (Value, nativeStatus) {
	s1, s2, ok := x.twoConcrete(a)
	if !ok {
		return nil, nDecline
	}
	return x.F.Bool(strings.HasPrefix(s1, s2)), nDone
}

func nStringsHasSuffix(x *Exec, t *Thread, a []Value, c *callCtx) (Value, nativeStatus) {
	s1, s2, ok := x.twoConcrete(a)
	if !ok {
		return nil, nDecline
	}
	return x.F.Bool(strings.HasSuffix(s1, s2)), nDone
}

func nStringsSplit(x *Exec, t *Thread, a []Value, c *callCtx) (Value, nativeStatus) {
	s1, s2, ok := x.twoConcrete(a)
	if !ok {
		return nil, nDecline
	}
	parts := strings.Split(s1, s2)
	st := types.Typ[types.String]
	arr := x.newArrayCell(st, len(parts))
	for i, p := range parts {
		arr.Sub[i].V = Str{K: p}
	}
	return Slice{Arr: arr, Len: len(parts), Cap: len(parts), Elem: st}, nDone
}
