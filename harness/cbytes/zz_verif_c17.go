//go:build verif

package bytes

import (
	stderrors "errors"

	"github.com/acquirecloud/golibs/errors"
)

// C17: block allocator.

// zzBuf is a contract stub of Buffer: it has a (symbolic) size and records what it is asked for.
type zzBuf struct {
	size  int64
	offs  []int64
	sizes []int
	fill  bool
}

func (b *zzBuf) Close() error       { return nil }
func (b *zzBuf) Size() int64        { return b.size }
func (b *zzBuf) Grow(n int64) error { return nil }
func (b *zzBuf) Buffer(offs int64, size int) ([]byte, error) {
	b.offs = append(b.offs, offs)
	b.sizes = append(b.sizes, size)
	if !b.fill {
		return nil, nil
	}
	res := make([]byte, size)
	for i := range res {
		res[i] = 0xFF
	}
	return res, nil
}

// Group 1a: a block size that GetBlocksInSegment rejects is rejected by the constructor (no panic, ErrInvalid)
func zzC17Rejected() {
	bs := vInt("bs")
	size := vInt64("size")
	fit := vBool("fit")
	vAssume(size >= 0)
	vAssume(GetBlocksInSegment(bs) < 0)
	vReach("rejected-bs")
	b, err := NewBlocks(bs, &zzBuf{size: size}, fit)
	vAssert(err != nil, "NewBlocks accepted a block size that GetBlocksInSegment rejects")
	vAssert(b == nil, "NewBlocks returned an allocator together with an error")
	vAssert(stderrors.Is(err, errors.ErrInvalid), "NewBlocks: rejection is not ErrInvalid")
}

// Group 1b: accepted block sizes: either ErrInvalid or a consistent geometry
func zzC17Accepted() {
	bs := vInt("bs")
	vAssume(bs >= 1 && bs <= vParam("MAXBS"))
	vAssume(GetBlocksInSegment(bs) > 0)
	bs = vConcrete(bs)
	vAssert(GetBlocksInSegment(bs) == 8*bs+1, "blocks per segment")
	segSize := int64((8*bs + 1) * bs)
	size := vInt64("size")
	fit := vBool("fit")
	vAssume(size >= 0 && size < 3*segSize)
	b, err := NewBlocks(bs, &zzBuf{size: size, fill: true}, fit)
	if err != nil {
		vAssert(b == nil, "NewBlocks returned an allocator together with an error")
		vAssert(stderrors.Is(err, errors.ErrInvalid), "NewBlocks: rejection is not ErrInvalid")
		vAssert(size < segSize || (fit && size%segSize != 0), "NewBlocks rejected a buffer that fits")
		return
	}
	vReach("accepted")
	vAssert(b.blkSize == bs && b.blksInSegm == 8*bs, "geometry fields")
	vAssert(b.segments >= 1, "accepted geometry has no segment")
	vAssert(int64(b.segments)*segSize <= size, "segments do not fit into the buffer")
	vAssert(int64(b.segments+1)*segSize > size, "a whole segment of the buffer is unused")
	vAssert(!fit || int64(b.segments)*segSize == size, "fit requested but the size is not a multiple of the segment size")
	vAssert(b.Count() == b.segments*8*bs, "Count")
	vAssert(b.Available() == 0, "Available on a full bitmap")
}

var zzC17Sizes = []int{1, 2, 4, 8, 16, 32, 64, 128, 256, 512, 1024, 2048, 4096, 8192, 12288}

// Group 2: index arithmetic for a constant block size, symbolic segment count and indices.
// (assertions avoid division by the non-power-of-two segment size: with s = i / (8*bs) the block must lie in
// [s*segSize+bs, (s+1)*segSize), which is "inside segment s and outside its header")
func zzC17Index() {
	bs := zzC17Sizes[vParam("BSFROM")+vChoose("bsIdx", vParam("NBS")-vParam("BSFROM"))]
	segs := vInt("segments")
	vAssume(segs >= 1)
	vAssume(segs <= 65536)
	buf := &zzBuf{}
	bks := &Blocks{blkSize: bs, blksInSegm: 8 * bs, segments: segs, bts: buf}
	segSize := int64((8*bs + 1) * bs)
	i := vInt("i")
	j := vInt("j")
	vAssume(i >= 0)
	vAssume(i < segs*8*bs)
	vAssume(j >= 0)
	vAssume(j < segs*8*bs)
	vAssume(i != j)
	_, e1 := bks.Block(i)
	_, e2 := bks.Block(j)
	vAssert(e1 == nil, "Block rejects a valid index")
	vAssert(e2 == nil, "Block rejects a valid index")
	vAssert(len(buf.offs) == 2, "Block did not ask the buffer exactly once")
	oi, oj := buf.offs[0], buf.offs[1]
	vReach("offsets")
	vAssert(buf.sizes[0] == bs, "Block asks for a range that is not one block long")
	vAssert(buf.sizes[1] == bs, "Block asks for a range that is not one block long")
	si := int64(i / (8 * bs))
	vAssert(oi >= si*segSize+int64(bs), "block range starts inside or before its segment header")
	vAssert(oi+int64(bs) <= (si+1)*segSize, "block range leaves its segment")
	vAssert((oi-si*segSize)%int64(bs) == 0, "block range not aligned to the block size")
	dj := oj + int64(bs) - oi
	di := oi + int64(bs) - oj
	vAssert(dj <= 0 || di <= 0, "data ranges of two distinct blocks overlap")
	// header coordinates
	hi, fi, bi := bks.getBlockIdxInHdr(i)
	hj, fj, bj := bks.getBlockIdxInHdr(j)
	vAssert(hi == si*segSize, "header of another segment than the block's data")
	vAssert(fi >= 0, "header byte index negative")
	vAssert(fi < bs, "header byte index outside the header block")
	vAssert(bi < 8, "header bit index out of range")
	same := 0
	if hi == hj {
		same++
	}
	if fi == fj {
		same++
	}
	if bi == bj {
		same++
	}
	vAssert(same < 3, "two distinct blocks share one header bit")
}

// out of range indices are rejected by Block and by the header lookup
func zzC17IndexInvalid() {
	bs := zzC17Sizes[vChoose("bsIdx", vParam("NBS"))]
	segs := vInt("segments")
	vAssume(segs >= 1)
	vAssume(segs <= 65536)
	buf := &zzBuf{}
	bks := &Blocks{blkSize: bs, blksInSegm: 8 * bs, segments: segs, bts: buf}
	k := vInt("k")
	if vBool("negative") {
		vAssume(k < 0)
	} else {
		vAssume(k >= segs*8*bs)
	}
	_, e3 := bks.Block(k)
	vReach("offsets")
	vAssert(e3 != nil, "Block accepts an index out of range")
	vAssert(stderrors.Is(e3, errors.ErrInvalid), "Block: rejection is not ErrInvalid")
	hk, _, _ := bks.getBlockIdxInHdr(k)
	vAssert(hk < 0, "header coordinates for an index out of range")
}

// helper: header bit of block idx in a byte image
func zzC17Bit(img []byte, bs, idx int) bool {
	seg := idx / (8 * bs)
	b := idx % (8 * bs)
	pos := seg*(8*bs+1)*bs + b/8
	return img[vConcrete(pos)]&(1<<uint(b%8)) != 0
}

// Group 3: one operation from an arbitrary invariant state on the real in-memory buffer
func zzC17Step() {
	bs := []int{1, 2, 4, 8}[vParam("BSMIN")+vChoose("bsIdx", vParam("NBS3")-vParam("BSMIN"))]
	segs := vConcrete(vRange("segments", 1, vParam("SEGS")))
	extra := vChoose("oversize", 2) * 3
	segSize := (8*bs + 1) * bs
	total := segs*segSize + extra
	ib := NewInMemBytes(total)
	img := vBytes("image", total)
	copy(*ib, img)
	// arbitrary free hint satisfying "every header byte before it is 0xFF"
	fs := vConcrete(vRange("freeSeg", 0, segs))
	fp := 0
	if fs < segs {
		fp = vConcrete(vRange("freePos", 0, bs-1))
	}
	for s := 0; s < segs; s++ {
		for p := 0; p < bs; p++ {
			if s < fs || (s == fs && p < fp) {
				vAssume(img[s*segSize+p] == 0xFF)
			}
		}
	}
	a0 := int32(vRange("avail", 0, segs*8*bs))
	bks := &Blocks{blkSize: bs, blksInSegm: 8 * bs, segments: segs, bts: ib, freeIdx: fs*segSize + fp, available: a0}
	for s := 0; s < segs; s++ {
		hdr := (*ib)[s*segSize : s*segSize+bs]
		for p := range hdr {
			vGuardedBy(&hdr[p], &bks.lock)
		}
	}
	vGuardedBy(&bks.freeIdx, &bks.lock)
	count := segs * 8 * bs
	switch vChoose("op", 3) {
	case 0:
		idx, err := bks.ArrangeBlock()
		vReach("arrange")
		anyFree := false
		for s := 0; s < segs; s++ {
			for p := 0; p < bs; p++ {
				if img[s*segSize+p] != 0xFF {
					anyFree = true
				}
			}
		}
		vAssert((err != nil) == !anyFree, "ArrangeBlock fails exactly when nothing is free")
		if err != nil {
			vAssert(stderrors.Is(err, errors.ErrExhausted), "ArrangeBlock failure is not ErrExhausted")
			vAssert(bks.Available() == int(a0), "failed ArrangeBlock changed Available")
			zzC17Unchanged(*ib, img, -1)
		} else {
			idx = vConcrete(idx)
			vAssert(idx >= 0 && idx < count, "ArrangeBlock returned an index out of range")
			vAssert(!zzC17Bit(img, bs, idx), "ArrangeBlock handed out a block that was already allocated")
			vAssert(zzC17Bit(*ib, bs, idx), "ArrangeBlock did not mark the block allocated")
			vAssert(bks.Available() == int(a0)-1, "ArrangeBlock did not decrement Available")
			zzC17Unchanged(*ib, img, (idx/(8*bs))*segSize+(idx%(8*bs))/8)
		}
	case 1:
		idx := vInt("idx")
		err := bks.FreeBlock(idx)
		vReach("free")
		if idx < 0 || idx >= count {
			vAssert(err != nil && stderrors.Is(err, errors.ErrInvalid), "FreeBlock accepts an index out of range")
			zzC17Unchanged(*ib, img, -1)
			vAssert(bks.Available() == int(a0), "failed FreeBlock changed Available")
		} else {
			idx = vConcrete(idx)
			if !zzC17Bit(img, bs, idx) {
				vAssert(err != nil && stderrors.Is(err, errors.ErrNotExist), "FreeBlock of a free block does not fail with ErrNotExist")
				zzC17Unchanged(*ib, img, -1)
				vAssert(bks.Available() == int(a0), "failed FreeBlock changed Available")
			} else {
				vAssert(err == nil, "FreeBlock of an allocated block failed")
				vAssert(!zzC17Bit(*ib, bs, idx), "FreeBlock did not clear the block's bit")
				vAssert(bks.Available() == int(a0)+1, "FreeBlock did not increment Available")
				zzC17Unchanged(*ib, img, (idx/(8*bs))*segSize+(idx%(8*bs))/8)
			}
		}
	case 2:
		idx := vInt("idx")
		blk, err := bks.Block(idx)
		vReach("block")
		if idx < 0 || idx >= count {
			vAssert(err != nil && stderrors.Is(err, errors.ErrInvalid), "Block accepts an index out of range")
		} else {
			idx = vConcrete(idx)
			vAssert(err == nil && len(blk) == bs, "Block of a valid index")
			off := cap(*ib) - cap(blk)
			vAssert(vSameCell(blk, *ib), "Block returned memory outside the buffer")
			vAssert(off == (idx+idx/(8*bs)+1)*bs, "Block returned the wrong byte range")
			vAssert(off%segSize >= bs, "Block range overlaps a header")
		}
		zzC17Unchanged(*ib, img, -1)
		vAssert(bks.Available() == int(a0), "Block changed Available")
	}
	// invariant: free hint still only skips full header bytes, and lies in a header or at the end
	f := vConcrete(bks.freeIdx)
	vAssert(f >= 0 && f <= segs*segSize, "free hint out of range")
	vAssert(f == segs*segSize || f%segSize < bs, "free hint points outside the headers (a later ArrangeBlock would treat user data as bitmap)")
	for s := 0; s < segs; s++ {
		for p := 0; p < bs; p++ {
			if s*segSize+p < f {
				vAssert((*ib)[s*segSize+p] == 0xFF, "free hint skips a header byte that still has free blocks")
			}
		}
	}
}

// every byte except position except (or none if -1) is unchanged; at except exactly one bit differs
func zzC17Unchanged(now, before []byte, except int) {
	vAssert(len(now) == len(before), "buffer length changed")
	for i := range before {
		if i == except {
			d := now[i] ^ before[i]
			vAssert(d != 0 && d&(d-1) == 0, "not exactly one header bit changed")
			continue
		}
		vAssert(now[i] == before[i], "a byte outside the block's header bit changed")
	}
}

// Group 4: opening arbitrary bytes reproduces the allocated set: Available == number of zero header bits, hint at 0
func zzC17Reopen() {
	bs := []int{1, 2}[vParam("BS4FROM")+vChoose("bsIdx", vParam("NBS4"))]
	segs := vConcrete(vRange("segments", 1, vParam("SEGS4")))
	segSize := (8*bs + 1) * bs
	fit := vBool("fit")
	extra := 0
	if !fit {
		extra = vChoose("oversize", 2) * 2
	}
	total := segs*segSize + extra
	ib := NewInMemBytes(total)
	img := vBytes("image", total)
	// headers of all but the last segment take one of a few concrete values (entirely free, full, half), the last
	// segment's header and all data bytes stay symbolic (the counting loop forks on every symbolic header bit)
	for s := 0; s < segs-1; s++ {
		for p := 0; p < bs; p++ {
			img[s*segSize+p] = []byte{0x00, 0xFF, 0x0F}[vChoose("hdr", 3)]
		}
	}
	if vParam("HDR0") == 1 {
		// multi-byte headers: the leading header byte of the last segment, too, is one of the concrete patterns (an
		// entirely free byte in front of a used one is what a free-after-allocate history leaves behind)
		img[(segs-1)*segSize] = []byte{0x00, 0xFF, 0x0F}[vChoose("hdr0", 3)]
	}
	copy(*ib, img)
	bks, err := NewBlocks(bs, ib, fit)
	vAssert(err == nil && bks != nil, "NewBlocks rejects a valid geometry")
	vReach("opened")
	vAssert(bks.segments == segs && bks.freeIdx == 0, "geometry after reopen")
	zeros := 0
	for s := 0; s < segs; s++ {
		for p := 0; p < bs; p++ {
			b := img[s*segSize+p]
			for j := uint(0); j < 8; j++ {
				zeros += int(1 - (b>>j)&1)
			}
		}
	}
	vAssert(bks.Available() == zeros, "Available after reopen is not the number of free blocks in the bitmap")
	zzC17Unchanged(*ib, img, -1)
}
