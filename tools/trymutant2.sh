#!/bin/bash
# usage: trymutant2.sh <PROP> <k> [check-id ...]   like trymutant.sh, but runs the checks with --repo <scratch worktree> (patch applied there), leaving /repo alone
export GOFLAGS=-mod=mod GOPROXY=off GOSUMDB=off GOTOOLCHAIN=local
P=$1; K=$2; shift 2; CHECKS=${@:-$P}
W=/tmp/mut/$P; O=/tmp/mut/out/$P
DIFF=$O/m$K.diff; DEMO=$O/m${K}_demo_test.go
DIR=$(head -1 $DEMO | sed 's,^// dir: *,,')
cd $W && git checkout -q -- . && git clean -fdq
cp $DEMO $W/$DIR/zz_demo_m${K}_test.go
RUN=$(grep -o '^func Test[A-Za-z0-9_]*' $DEMO | sed 's/func //' | paste -sd'|')
CLEAN=$(go test -vet=off -count=1 -run "^($RUN)\$" ./$DIR/ 2>&1 | tail -1)
git apply $DIFF || { echo "PATCH DOES NOT APPLY"; exit 3; }
BUILD=$(go build ./... 2>&1 | tail -2)
PATCHED=$(go test -vet=off -count=1 -run "^($RUN)\$" ./$DIR/ 2>&1 | tail -1)
rm $W/$DIR/zz_demo_m${K}_test.go
SUITE=$(go test -vet=off -count=1 ./... 2>&1 | grep -v '^ok\|no test files' | grep -v 'TestBunch2\|TestCancelMany' | head -5)
echo "demo clean:   $CLEAN"; echo "demo patched: $PATCHED"; echo "build: ${BUILD:-ok}"; echo "suite (non-ok lines): ${SUITE:-all ok}"
git checkout -q -- go.sum go.mod 2>/dev/null
mkdir -p /tmp/ev-mut/$P
for C in $CHECKS; do
  OUT=$(cd /verif && GOSX_EVIDENCE_DIR=/tmp/ev-mut/$P timeout 1500 bin/gosx check $C --tier ${TIER:-quick} --repo $W 2>&1); RC=$?
  echo "check $C exit=$RC"; echo "$OUT" | grep -E "violation in|INCONCLUSIVE|VIOLATION" | cut -c1-260 | head -6
done
cd $W && git checkout -q -- . && git clean -fdq
