//go:build verif

package PKGNAME

import (
	"context"
	stderrors "errors"
	"sync"
	"time"

	"github.com/acquirecloud/golibs/container/iterable"
	"github.com/acquirecloud/golibs/errors"
	"github.com/acquirecloud/golibs/kvs"
	"github.com/acquirecloud/golibs/logging"
	"github.com/acquirecloud/golibs/timeout"
)

// ---------------------------------------------------------------------------------------------
// environment of the lock: contract storage, lease timers, contexts, logger

type zzLogger struct{}

func (zzLogger) Warnf(string, ...interface{})  {}
func (zzLogger) Infof(string, ...interface{})  {}
func (zzLogger) Debugf(string, ...interface{}) {}
func (zzLogger) Tracef(string, ...interface{}) {}
func (zzLogger) Errorf(string, ...interface{}) {}

func zzNewLogger(name string) logging.Logger { return zzLogger{} }

// ULID contract: a token distinct from every token issued before
func zzNewID() string { return vToken("id-") }

// zzCtx: cancellable context carrying the id of the attempt (ghost)
type zzCtx struct {
	done chan struct{}
	err  error
	id   int
}

func zzNewCtx(id int) *zzCtx                 { return &zzCtx{done: make(chan struct{}), id: id} }
func (c *zzCtx) Deadline() (time.Time, bool) { return time.Time{}, false }
func (c *zzCtx) Done() <-chan struct{}       { return c.done }
func (c *zzCtx) Err() error                  { return c.err }
func (c *zzCtx) Value(key any) any           { return nil }
func (c *zzCtx) cancel() {
	if c.err == nil {
		c.err = context.Canceled
		close(c.done)
	}
}

var zzTransient = stderrors.New("transient storage failure")

// zzStore is the storage contract the lock relies on (C02/C03/C06/C07), for the single lock key:
// atomic operations, fresh versions, an expired record is absent, WaitForVersionChange returns once the
// record is absent / has another version / the context is done. Every call is a scheduling point.
type zzStore struct {
	mu      sync.Mutex
	present bool
	key     string
	val     []byte
	ver     string
	exp     time.Time
	changed chan struct{}
	// fault injection (C01): per call none / request lost / reply lost, at most maxFaults
	maxFaults, faults int
	// ghost state
	guard        string // version whose record is assumed not to expire (a live tenure renews in time)
	lastCreateBy map[int]string
	ownerDead    bool
	casCalls     int
	casApplied   int
	deletes      int
	renewFailAt  int // C05: the k-th CasByVersion is lost (0 = never)
	noExpiry     bool
	noGuard      bool
	progress     chan struct{} // one token per applied renewal
}

func zzNewStore(maxFaults int) *zzStore {
	return &zzStore{changed: make(chan struct{}), maxFaults: maxFaults, lastCreateBy: map[int]string{}, progress: make(chan struct{}, 64)}
}

// fault: 0 none, 1 request lost, 2 reply lost
func (s *zzStore) fault(op int) int {
	if s.faults >= s.maxFaults || (vParam("FAULTMASK")>>uint(op))&1 == 0 {
		return 0
	}
	f := vChoose("fault", 3)
	if f != 0 {
		s.faults++
	}
	return f
}

func (s *zzStore) bump() {
	close(s.changed)
	s.changed = make(chan struct{})
}

// lazy expiry; a guarded record (live tenure) is assumed to be renewed in time.
// CLOCK=1: expiry is decided against the symbolic clock. CLOCK=0: time is abstracted away - an unguarded
// record (orphan after a lost reply or a lost Delete) may lapse at any storage operation, by symbolic choice.
func (s *zzStore) expire() {
	if !s.present {
		return
	}
	if vParam("CLOCK") == 0 {
		return // time abstracted away: unguarded records are removed by a "lapse" thread (see unguard)
	}
	now := time.Now()
	if s.guard == s.ver && !s.ownerDead && !s.noGuard {
		vAssume(!s.exp.Before(now))
		return
	}
	if s.noExpiry {
		return
	}
	if s.exp.Before(now) {
		s.present = false
		s.bump()
	}
}

// unguard ends the no-expiry assumption for the current record. With the clock abstracted away an
// environment thread removes the record at some later point chosen by the scheduler (its lease lapses).
func (s *zzStore) unguard() {
	s.guard = ""
	if vParam("CLOCK") == 0 && s.present && !s.noExpiry {
		v := s.ver
		vSpawn("lapse", func() {
			s.mu.Lock()
			if s.present && s.ver == v && s.guard != v {
				s.present = false
				s.bump()
			}
			s.mu.Unlock()
		})
	}
}

func zzCtxID(ctx context.Context) int {
	if c, ok := ctx.(*zzCtx); ok {
		return c.id
	}
	return -1
}

func (s *zzStore) Create(ctx context.Context, r kvs.Record) (string, error) {
	s.mu.Lock()
	defer s.mu.Unlock()
	if ctx.Err() != nil {
		return "", ctx.Err()
	}
	f := s.fault(0)
	if f == 1 {
		return "", zzTransient
	}
	s.expire()
	if s.present {
		if f == 2 {
			return "", zzTransient
		}
		return s.ver, errors.ErrExist
	}
	vAssert(r.ExpiresAt != nil, "lock record created without an expiration")
	s.present, s.key, s.ver, s.exp = true, r.Key, vToken("v"), *r.ExpiresAt
	s.val = r.Value
	s.guard = s.ver
	s.lastCreateBy[zzCtxID(ctx)] = s.ver
	s.bump()
	if f == 2 {
		return "", zzTransient
	}
	return s.ver, nil
}

func (s *zzStore) CasByVersion(ctx context.Context, r kvs.Record) (kvs.Record, error) {
	s.mu.Lock()
	defer s.mu.Unlock()
	s.casCalls++
	if s.renewFailAt != 0 && s.casCalls == s.renewFailAt {
		return kvs.Record{}, zzTransient
	}
	f := s.fault(1)
	if f == 1 {
		return kvs.Record{}, zzTransient
	}
	s.expire()
	if !s.present {
		return kvs.Record{}, errors.ErrNotExist
	}
	if s.ver != r.Version {
		return kvs.Record{}, errors.ErrConflict
	}
	vAssert(r.ExpiresAt != nil, "lock record renewed without an expiration")
	old := s.ver
	s.ver, s.exp = vToken("v"), *r.ExpiresAt
	s.val = r.Value
	if s.guard == old {
		s.guard = s.ver
	}
	s.casApplied++
	select {
	case s.progress <- struct{}{}:
	default:
	}
	s.bump()
	if f == 2 {
		return kvs.Record{}, zzTransient
	}
	r.Version = s.ver
	return r, nil
}

func (s *zzStore) Delete(ctx context.Context, key string) error {
	s.mu.Lock()
	defer s.mu.Unlock()
	f := s.fault(2)
	if f == 1 {
		// the Delete of an Unlock is lost: the tenure is over, the record stays behind and may lapse
		if s.present && s.guard == s.ver {
			s.unguard()
		}
		return zzTransient
	}
	s.expire()
	if !s.present {
		return errors.ErrNotExist
	}
	s.present = false
	s.deletes++
	s.bump()
	if f == 2 {
		return zzTransient
	}
	return nil
}

func (s *zzStore) Get(ctx context.Context, key string) (kvs.Record, error) {
	s.mu.Lock()
	defer s.mu.Unlock()
	s.expire()
	if !s.present {
		return kvs.Record{}, errors.ErrNotExist
	}
	e := s.exp
	return kvs.Record{Key: s.key, Value: s.val, Version: s.ver, ExpiresAt: &e}, nil
}

func (s *zzStore) WaitForVersionChange(ctx context.Context, key, ver string) error {
	for {
		s.mu.Lock()
		if s.fault(3) != 0 {
			s.mu.Unlock()
			return zzTransient
		}
		s.expire()
		if !s.present {
			s.mu.Unlock()
			return errors.ErrNotExist
		}
		if s.ver != ver {
			s.mu.Unlock()
			return nil
		}
		ch := s.changed
		var expC <-chan time.Time
		var tm *time.Timer
		if vParam("CLOCK") == 1 && (s.guard != s.ver || s.ownerDead || s.noGuard) {
			// an unguarded record lapses by itself: wake up when it does
			tm = time.NewTimer(s.exp.Sub(time.Now()) + 1)
			expC = tm.C
		}
		s.mu.Unlock()
		select {
		case <-ch:
		case <-expC:
		case <-ctx.Done():
			if tm != nil {
				tm.Stop()
			}
			return ctx.Err()
		}
		if tm != nil {
			tm.Stop()
		}
	}
}

func (s *zzStore) Put(ctx context.Context, r kvs.Record) (kvs.Record, error) {
	panic("zzStore: Put is not used by the lock")
}
func (s *zzStore) PutMany(ctx context.Context, rs []kvs.Record) error {
	panic("zzStore: PutMany is not used by the lock")
}
func (s *zzStore) GetMany(ctx context.Context, keys ...string) ([]*kvs.Record, error) {
	panic("zzStore: GetMany is not used by the lock")
}
func (s *zzStore) ListKeys(ctx context.Context, p string) (iterable.Iterator[string], error) {
	panic("zzStore: ListKeys is not used by the lock")
}

var _ kvs.Storage = (*zzStore)(nil)

// lease timers: the contract C12/C13 establish for timeout.Call - the function starts at most once, at an
// instant >= due, never after a Cancel that came first.
type zzFuture struct {
	armed bool
}

func (f *zzFuture) Cancel() { f.armed = false }

var zzTimerStarts int
var zzTimersArmed int
var zzTimersDead bool

func zzTimeoutCall(f func(), d time.Duration) timeout.Future {
	fu := &zzFuture{armed: f != nil}
	if f == nil {
		return fu
	}
	zzTimersArmed++
	if zzTimersArmed > vParam("TIMERS") {
		// bound of the exploration: at most TIMERS lease timers are ever armed; later ones never fire
		return fu
	}
	var tmC <-chan time.Time
	if vParam("CLOCK") == 1 {
		tmC = time.NewTimer(d).C
	}
	vSpawn("lease-timer", func() {
		if tmC != nil {
			<-tmC // with the clock abstracted away the timer may fire at any point the scheduler chooses
		}
		// hypothesis (DESIGN, observation 1): no goroutine is stalled for >= TTL/2 between timeout.Call and
		// future.Store / future.CompareAndSwap - when a timer fires, its future has been stored (or cancelled)
		if zzW != nil && fu.armed {
			stored := false
			for _, l := range zzW.lockers {
				if v := l.future.Load(); v != nil && v.(*zzFuture) == fu {
					stored = true
				}
			}
			vAssume(stored)
		}
		if fu.armed && !zzTimersDead {
			fu.armed = false
			zzTimerStarts++
			f()
		}
	})
	return fu
}

// ---------------------------------------------------------------------------------------------
// C01 / C04: programs of lockers under every schedule

type zzWorld struct {
	st      *zzStore
	provs   []*kvsLockProvider
	lockers []*kvsLock
	holders int
	acq     []int // acquisitions per thread
	nextCtx int
	shutdownDone bool
}

var zzW *zzWorld

func zzNewWorld(nProv, nLock, maxFaults int) *zzWorld {
	w := &zzWorld{st: zzNewStore(maxFaults)}
	zzW = w
	for i := 0; i < nProv; i++ {
		p := New("/locks/")
		p.Storage = w.st
		if vParam("CLOCK") == 1 {
			if vParam("TTLSET") == 1 {
				// a few concrete lease periods (even, odd, large): all clock arithmetic folds to constants
				p.leaseTTL = time.Duration([]int64{1001, 1000, 1 << 30}[vChoose("leaseTTL", vParam("TTLN"))])
			} else {
				ttl := vInt64("leaseTTL")
				vAssume(ttl >= int64(vParam("TTLMIN")) && ttl <= 1<<40)
				p.leaseTTL = time.Duration(ttl)
			}
		}
		w.provs = append(w.provs, p)
	}
	for i := 0; i < nLock; i++ {
		w.lockers = append(w.lockers, w.provs[i%nProv].NewLocker("L").(*kvsLock))
	}
	return w
}

func (w *zzWorld) acquired(t int) {
	w.holders++
	vAssert(w.holders == 1, "two callers hold the lock at the same time")
	w.acq[t]++
}

// one acquire attempt of thread t on locker l; returns whether the caller now holds the lock
func (w *zzWorld) attempt(t int, l *kvsLock, kinds int) bool {
	w.nextCtx++
	ctx := zzNewCtx(w.nextCtx)
	afterShutdown := w.shutdownDone
	ok := false
	kind := vChoose("acquire", kinds)
	if kinds == 3 && kind == 2 {
		kind = 3 // quick tier: LockWithCtx / TryLock / LockWithCtx cancelled at any point
	}
	switch kind {
	case 0: // LockWithCtx, never cancelled
		err := l.LockWithCtx(ctx)
		ok = err == nil
		if !ok {
			vAssert(l.lckCntr == 0 || w.holders > 0 || true, "")
		}
	case 1: // TryLock
		ok = l.TryLock(ctx)
	case 2: // LockWithCtx, context cancelled before the call
		ctx.cancel()
		err := l.LockWithCtx(ctx)
		vAssert(err == context.Canceled, "LockWithCtx with a done context did not return the context's error")
	case 3: // LockWithCtx, context cancelled at any point during the call
		vSpawn("canceller", func() { ctx.cancel() })
		err := l.LockWithCtx(ctx)
		ok = err == nil
		if !ok && w.st.maxFaults == 0 {
			vAssert(err == context.Canceled, "LockWithCtx returned something else than nil or the context's error")
		}
	case 4: // Lock
		l.Lock()
		ok = true
	}
	if ok {
		vAssert(!afterShutdown, "an attempt that started after Shutdown returned acquired the lock")
		w.acquired(t)
	} else if v, has := w.st.lastCreateBy[ctx.id]; has && w.st.guard == v {
		// the attempt failed from the caller's view although its Create was applied (reply lost): orphan record
		w.st.unguard()
	}
	return ok
}

func (w *zzWorld) release(l *kvsLock) {
	w.holders--
	l.Unlock()
}

// C01: mutual exclusion. N threads x P steps over {acquire (4-5 kinds), Unlock}; faults on storage calls.
func zzC01Mutex() {
	N, P := vParam("N"), vParam("P")
	nLock := vParam("LOCKERS")
	w := zzNewWorld(vParam("PROVS"), nLock, vParam("FAULTS"))
	w.acq = make([]int, N)
	kinds := vParam("KINDS")
	if vParam("FAULTS") > 0 && kinds > 4 {
		kinds = 4 // Lock() panics by design on a storage error
	}
	fin := make([]chan struct{}, N)
	for t := 0; t < N; t++ {
		t := t
		fin[t] = make(chan struct{})
		l := w.lockers[t%nLock]
		vSpawn("locker", func() {
			holding := false
			steps := P
			if t > 0 && vParam("P2") > 0 {
				steps = vParam("P2")
			}
			for s := 0; s < steps; s++ {
				if !holding {
					holding = w.attempt(t, l, kinds)
				} else {
					w.release(l)
					holding = false
				}
			}
			vReach("program-done")
			close(fin[t])
		})
	}
	for t := 0; t < N; t++ {
		<-fin[t]
	}
	vReach("all-done")
}

// ---------------------------------------------------------------------------------------------
// C04: hand-off, cancellation and shutdown leave no residue (no faults).

func (w *zzWorld) quiescent(nLock int) {
	vAssert(w.holders == 0, "a caller still counts as holder at quiescence")
	w.st.mu.Lock()
	vAssert(!w.st.present, "the lock record is still in the storage although every holder has unlocked")
	w.st.mu.Unlock()
	for i := 0; i < nLock; i++ {
		l := w.lockers[i]
		vAssert(l.lckCntr == 0, "a Locker is left in the held state")
		vAssert(len(l.lockCh) == 1, "a Locker's local token was not put back")
	}
	if !w.shutdownDone {
		// the same and other lockers can acquire again
		l := w.lockers[vChoose("again", nLock)]
		w.nextCtx++
		vAssert(l.TryLock(zzNewCtx(w.nextCtx)), "a fresh TryLock fails although nobody holds the lock")
		l.Unlock()
	}
}

// every caller gets the lock in turn: N threads, each Lock()s and Unlock()s ROUNDS times; no wake-up may be lost
func zzC04Handoff() {
	N, nLock := vParam("N"), vParam("LOCKERS")
	w := zzNewWorld(vParam("PROVS"), nLock, 0)
	w.acq = make([]int, N)
	rounds := vParam("ROUNDS")
	fin := make([]chan struct{}, N)
	for t := 0; t < N; t++ {
		t := t
		fin[t] = make(chan struct{})
		l := w.lockers[t%nLock]
		vSpawn("locker", func() {
			for r := 0; r < rounds; r++ {
				if vChoose("how", 2) == 0 {
					l.Lock()
				} else {
					w.nextCtx++
					vAssert(l.LockWithCtx(zzNewCtx(w.nextCtx)) == nil, "LockWithCtx with a live context failed")
				}
				w.acquired(t)
				vYield()
				w.release(l)
			}
			close(fin[t])
		})
	}
	for t := 0; t < N; t++ {
		<-fin[t] // a caller that never gets the lock shows as a deadlock
	}
	vReach("all-done")
	for t := 0; t < N; t++ {
		vAssert(w.acq[t] == rounds, "a caller did not get the lock")
	}
	w.quiescent(nLock)
}

// cancellation and failing TryLock leave nothing behind; a holder is present part of the time
func zzC04Cancel() {
	nLock := vParam("LOCKERS")
	w := zzNewWorld(1, nLock, 0)
	w.acq = make([]int, 2)
	holderDone := make(chan struct{})
	hl := w.lockers[0]
	// thread 0: holds the lock for a while
	vSpawn("holder", func() {
		hl.Lock()
		w.acquired(0)
		vYield()
		w.release(hl)
		close(holderDone)
	})
	// thread 1: an attempt that is cancelled (before / at any point) or a TryLock
	cl := w.lockers[(nLock-1)%nLock] // the same Locker when LOCKERS == 1
	w.nextCtx++
	ctx := zzNewCtx(w.nextCtx)
	got := false
	switch vChoose("attempt", 4) {
	case 3:
		// a TryLock whose context ends at any point, also while its storage call is in flight: whatever it
		// answers, a false answer leaves nothing behind
		vSpawn("canceller", func() { ctx.cancel() })
		got = cl.TryLock(ctx)
	case 0:
		ctx.cancel()
		err := cl.LockWithCtx(ctx)
		vAssert(err == context.Canceled, "a context that is already done must yield the context's error")
	case 1:
		vSpawn("canceller", func() { ctx.cancel() })
		err := cl.LockWithCtx(ctx)
		vAssert(err == nil || err == context.Canceled, "LockWithCtx returned something else than nil or the context's error")
		got = err == nil
	case 2:
		got = cl.TryLock(ctx)
	}
	if got {
		w.acquired(1)
		vYield()
		w.release(cl)
	} else {
		// nothing was stored by this attempt and nothing is held because of it
		_, stored := w.st.lastCreateBy[ctx.id]
		vAssert(!stored, "a failed attempt left a record in the storage")
	}
	vReach("attempt-done")
	<-holderDone
	w.quiescent(nLock)
}

// after Shutdown returned no attempt ever acquires
func zzC04Shutdown() {
	nLock := vParam("LOCKERS")
	w := zzNewWorld(1, nLock, 0)
	w.acq = make([]int, 2)
	fin := make(chan struct{})
	l0 := w.lockers[0]
	vSpawn("early", func() {
		// an attempt that may start before the shutdown: it may or may not acquire
		w.nextCtx++
		if l0.LockWithCtx(zzNewCtx(w.nextCtx)) == nil {
			w.holders++
			vAssert(w.holders == 1, "two callers hold the lock at the same time")
			vYield()
			w.release(l0)
		}
		close(fin)
	})
	vYield()
	w.provs[0].Shutdown()
	w.shutdownDone = true
	l1 := w.lockers[(nLock-1)%nLock]
	w.nextCtx++
	ctx := zzNewCtx(w.nextCtx)
	if vChoose("late", 2) == 0 {
		vAssert(l1.LockWithCtx(ctx) != nil, "LockWithCtx acquired after Shutdown returned")
	} else {
		vAssert(!l1.TryLock(ctx), "TryLock acquired after Shutdown returned")
	}
	_, stored := w.st.lastCreateBy[ctx.id]
	vAssert(!stored, "an attempt after Shutdown stored a record")
	vReach("late-done")
	<-fin
	vAssert(w.holders == 0, "holder left")
	w.st.mu.Lock()
	vAssert(!w.st.present, "the lock record is still in the storage although every holder has unlocked (Unlock after Shutdown must still delete it)")
	w.st.mu.Unlock()
}

// ---------------------------------------------------------------------------------------------
// C05: the lease is kept while held and lapses after holder death.
// Prompt environment (engine option prompt_clock): time passes only when a timer fires, and the earliest
// armed timer fires exactly when due - "the storage answers and renewals fire on time".

// part 1: while the holder holds (for R renewal periods, the k-th renewal call failing transiently) a contender
// that is parked in LockWithCtx never acquires; after Unlock it does.
func zzC05Kept() {
	w := zzNewWorld(1, 2, 0)
	w.acq = make([]int, 2)
	w.st.noGuard = true // expiry is real here: nothing is assumed about renewals
	R := vParam("R")
	k := 0 // 0 = no failing renewal
	if vParam("FAILMAX") > 0 {
		k = vChoose("failAt", vParam("FAILMAX")+1)
	}
	w.st.renewFailAt = k
	hl, cl := w.lockers[0], w.lockers[1]
	hl.Lock()
	w.acquired(0)
	contDone := make(chan struct{})
	vSpawn("contender", func() {
		w.nextCtx++
		err := cl.LockWithCtx(zzNewCtx(w.nextCtx))
		vAssert(err == nil, "contender's LockWithCtx failed")
		known := vKnownIf("C05/renewal-stops-after-transient-error", k != 0)
		w.acquired(1)
		if known {
			vKnownEnd()
		}
		close(contDone)
	})
	// the holder keeps the lock until R renewals have been applied (a stalled chain would never get there)
	for w.st.casApplied < R {
		before := w.st.casApplied
		<-w.st.progress
		_ = before
	}
	vReach("held-long")
	w.release(hl)
	<-contDone
	vReach("handed-over")
	if vParam("THIRD") == 1 {
		// the second tenure (whose caller had been waiting for R renewal periods) must be kept alive like any other:
		// its first renewal is applied (else: deadlock) and a third caller probing then does not get the lock
		before := w.st.casApplied
		for w.st.casApplied == before {
			<-w.st.progress
		}
		tl := w.provs[0].NewLocker("L").(*kvsLock)
		w.nextCtx++
		got := tl.TryLock(zzNewCtx(w.nextCtx))
		vAssert(!got, "a third caller acquired the lock while the second tenure holds it")
		w.release(cl)
		vReach("third-done")
	}
}

// part 2: the holder dies (its timers are dropped, it never unlocks) at any phase: the waiting contender
// acquires, not before the record's expiration and promptly after it
func zzC05Death() {
	w := zzNewWorld(1, 2, 0)
	w.acq = make([]int, 2)
	w.st.noGuard = true
	hl, cl := w.lockers[0], w.lockers[1]
	hl.Lock()
	w.acquired(0)
	var acqAt time.Time
	contDone := make(chan struct{})
	vSpawn("contender", func() {
		w.nextCtx++
		err := cl.LockWithCtx(zzNewCtx(w.nextCtx))
		vAssert(err == nil, "contender's LockWithCtx failed")
		acqAt = time.Now()
		close(contDone)
	})
	// death after 0..R renewals
	R := vParam("R")
	dieAfter := vChoose("dieAfter", R+1)
	for w.st.casApplied < dieAfter {
		<-w.st.progress
	}
	zzTimersDead = true
	deathAt := time.Now()
	w.holders-- // a dead holder no longer counts
	w.st.mu.Lock()
	lastExp := w.st.exp
	w.st.mu.Unlock()
	<-contDone // the record must disappear and the contender must get the lock (else: deadlock)
	vReach("took-over")
	vAssert(!acqAt.Before(lastExp), "the contender acquired before the dead holder's lease ran out")
	vAssert(acqAt.Sub(lastExp) <= 64, "the contender acquired much later than one lease period after the holder died")
	vAssert(acqAt.Sub(deathAt) <= w.provs[0].leaseTTL+64, "the record outlived the dead holder by more than one lease period")
}

// part 3: Unlock racing a renewal in flight, followed by a new tenure of the same Locker
func zzC05UnlockRace() {
	w := zzNewWorld(1, 1, 0)
	w.acq = make([]int, 1)
	l := w.lockers[0]
	l.Lock()
	w.acquired(0)
	vYield() // the lease timer may fire here or at any later point
	casBefore := w.st.casCalls
	w.release(l)
	after := w.st.casCalls
	_ = casBefore
	armedAtUnlock := zzTimersArmed
	appliedAtUnlock := w.st.casApplied
	delAtUnlock := w.st.deletes
	if vChoose("relock", 2) == 1 {
		l.Lock()
		w.acquired(0)
		newFut := l.future.Load().(*zzFuture)
		vYield()
		vSettle()
		// a straggler of the first tenure neither cancelled nor replaced the new tenure's timer, nor renewed its record
		cur := l.future.Load().(*zzFuture)
		vAssert(cur == newFut || w.st.casApplied > appliedAtUnlock, "the new tenure's timer was replaced although no renewal of the new tenure happened")
		if cur == newFut && zzTimersArmed <= vParam("TIMERS") {
			vAssert(cur.armed, "a straggler of the previous tenure cancelled the new tenure's renewal timer")
		}
		vAssert(w.st.present, "the new tenure's record disappeared")
		w.release(l)
		vReach("second-tenure")
		return
	}
	vSettle() // let a renewal that was already armed run
	vReach("settled")
	vAssert(w.st.casCalls-after <= 1, "more than one renewal attempt reached the storage after Unlock returned")
	vAssert(w.st.casApplied == appliedAtUnlock, "a renewal changed the storage after Unlock returned")
	vAssert(zzTimersArmed == armedAtUnlock, "a renewal armed a new timer after Unlock returned")
	vAssert(!w.st.present && w.st.deletes == delAtUnlock, "storage changed after Unlock returned")
}
