package main

import (
	"flag"
	"fmt"
	"os"
	"strconv"
	"strings"

	"gosx/gosx"
)

func main() {
	if len(os.Args) < 2 {
		fmt.Fprintln(os.Stderr, "usage: gosx run|check ...")
		os.Exit(2)
	}
	switch os.Args[1] {
	case "run":
		runCmd(os.Args[2:])
	case "check":
		os.Exit(gosx.CheckMain(os.Args[2:]))
	default:
		fmt.Fprintln(os.Stderr, "unknown command")
		os.Exit(2)
	}
}

type multi []string

func (m *multi) String() string     { return strings.Join(*m, ",") }
func (m *multi) Set(s string) error { *m = append(*m, s); return nil }

func runCmd(args []string) {
	fs := flag.NewFlagSet("run", flag.ExitOnError)
	repo := fs.String("repo", "/repo", "")
	pkg := fs.String("pkg", "", "")
	entry := fs.String("entry", "", "")
	workers := fs.Int("workers", 8, "")
	var hs, ps multi
	fs.Var(&hs, "harness", "harness file (real path); overlaid under its base name")
	fs.Var(&ps, "param", "name=value")
	pre := fs.Int("preempt", -1, "")
	fs.Parse(args)
	h := map[string]string{}
	for _, f := range hs {
		parts := strings.Split(f, "/")
		h[parts[len(parts)-1]] = f
	}
	p, err := gosx.Load(*repo, *pkg, h, "/verif/.work/run")
	if err != nil {
		fmt.Println("LOAD ERROR:", err)
		os.Exit(2)
	}
	p.Cfg.Workers = *workers
	p.Cfg.Preemptions = *pre
	p.Cfg.Defaults()
	for _, kv := range ps {
		i := strings.Index(kv, "=")
		v, _ := strconv.Atoi(kv[i+1:])
		p.Cfg.Params[kv[:i]] = v
	}
	fmt.Printf("loaded %d packages in %v\n", p.PkgCount, p.LoadTime)
	r := p.RunEntry(*entry)
	fmt.Printf("entry=%s paths=%d infeasible=%d blocks=%d steps=%d queries=%d (sat %d unsat %d unknown %d) solver=%v wall=%v\n",
		r.Entry, r.Paths, r.Infeasible, r.Blocks, r.Steps, r.Queries, r.SatN, r.UnsatN, r.UnknownN, r.SolverTime, r.Wall)
	for _, v := range r.Violations {
		fmt.Printf("VIOLATION kind=%s msg=%q pos=%s known=%q\n  nd=%v\n  observed=%v\n", v.Kind, v.Msg, v.Pos, v.Known, v.ND, v.Observed)
	}
	for _, m := range r.Inconclusive {
		fmt.Println("INCONCLUSIVE", m)
	}
	fmt.Println("reached:", r.Reached)
	for _, s := range r.Samples {
		fmt.Println("sample:", s)
	}
}
