#!/bin/bash
# times every thorough entry of the given checks separately (scratch evidence), CAP seconds each
CAP=${CAP:-600}
OUT=${OUT:-/verif/.work/thorough}
mkdir -p $OUT
cd /verif
for c in "$@"; do
  n=$(python3 -c "import json;print(sum(len(u['entries']) for u in json.load(open('checks/$c.json'))['units']))")
  for i in $(seq 0 $((n-1))); do
    S=$(date +%s)
    GOSX_EVIDENCE_DIR=/tmp/ev timeout $CAP bin/gosx check $c --tier ${TIER:-thorough} --index $i ${REPO:+--repo $REPO} > $OUT/$c.$i.log 2>&1; RC=$?
    echo "$c[$i] exit=$RC $(( $(date +%s) - S ))s $(tail -1 $OUT/$c.$i.log | cut -c1-140)" | tee -a $OUT/entries.txt
  done
done
