//go:build verif

package container

import (
	stderrors "errors"
	"io"

	"github.com/acquirecloud/golibs/errors"
)

// C14: the ring buffer is a bounded FIFO queue.

// zzC14CheckState: the abstraction of rb equals the model m, indices are in range and every slot
// outside the live window holds the zero value.
func zzC14CheckState(rb *ringBuffer[int], m []int, c int) {
	vAssert(rb.Cap() == c, "Cap changed")
	vAssert(len(rb.buf) == c+1, "backing array length changed")
	vAssert(rb.r >= 0 && rb.r <= c && rb.w >= 0 && rb.w <= c, "read/write index out of range")
	vAssert(rb.Len() == len(m), "Len differs from the queue model")
	for i := 0; i < len(m); i++ {
		vAssert(rb.At(i) == m[i], "At(i) is not the i-th oldest element")
	}
	r, w := vConcrete(rb.r), vConcrete(rb.w)
	for j := 0; j <= c; j++ {
		live := false
		if r <= w {
			live = j >= r && j < w
		} else {
			live = j >= r || j < w
		}
		if !live {
			vAssert(rb.buf[j] == 0, "slot outside the live window still references a consumed value")
		}
	}
}

// one operation from an arbitrary invariant state (covers histories of any length for cap <= N)
func zzC14Step() {
	c := vConcrete(vRange("cap", 0, vParam("N")))
	rb := NewRingBuffer[int](uint(c))
	zzC14CheckState(rb, nil, c) // base case
	r := vConcrete(vRange("r", 0, c))
	w := vConcrete(vRange("w", 0, c))
	rb.r, rb.w = r, w
	var m []int
	for i := r; i != w; i = (i + 1) % (c + 1) {
		v := vInt("e")
		rb.buf[i] = v
		m = append(m, v)
	}
	zzC14Op(rb, &m, c)
	vReach("op-done")
	zzC14CheckState(rb, m, c)
}

func zzC14Op(rb *ringBuffer[int], mp *[]int, c int) {
	m := *mp
	switch vChoose("op", 7) {
	case 0:
		v := vInt("v")
		err := rb.Write(v)
		if len(m) == c {
			vAssert(err != nil, "Write on a full buffer succeeded")
			vAssert(stderrors.Is(err, errors.ErrExhausted), "Write on a full buffer: error is not ErrExhausted")
		} else {
			vAssert(err == nil, "Write failed although Len < Cap")
			m = append(m, v)
		}
	case 1:
		v, err := rb.Read()
		if len(m) == 0 {
			vAssert(err == io.EOF, "Read on an empty buffer did not report io.EOF")
		} else {
			vAssert(err == nil, "Read failed on a non-empty buffer")
			vAssert(v == m[0], "Read did not return the oldest element")
			m = m[1:]
		}
	case 2:
		dl := vConcrete(vRange("dl", 0, c+2))
		dst := make([]int, dl)
		k := rb.ReadN(dst)
		want := dl
		if len(m) < want {
			want = len(m)
		}
		vAssert(k == want, "ReadN did not move min(len(dst), Len) elements")
		for i := 0; i < want; i++ {
			vAssert(dst[i] == m[i], "ReadN returned elements out of order")
		}
		m = m[want:]
	case 3:
		n := vInt("n")
		k := rb.Skip(n)
		want := 0
		if n > 0 {
			want = n
			if want > len(m) {
				want = len(m)
			}
		}
		vAssert(k == want, "Skip did not move min(max(n,0), Len) elements")
		m = m[want:]
	case 4:
		i := vInt("i")
		inRange := i >= 0 && i < len(m)
		got := 0
		p := vMustPanic(func() { got = rb.At(i) })
		vAssert(p == !inRange, "At panics exactly when the index is out of range")
		if inRange {
			vAssert(got == m[i], "At(i) is not the i-th oldest element")
		}
	case 5:
		rb.Clear()
		m = nil
	case 6:
		vAssert(rb.Len() == len(m), "Len")
		vAssert(rb.Cap() == c, "Cap")
	}
	*mp = m
}

// API-bounded history from the constructor
func zzC14History() {
	c := vConcrete(vRange("cap", 0, vParam("CAP")))
	rb := NewRingBuffer[int](uint(c))
	var m []int
	d := vParam("D")
	for s := 0; s < d; s++ {
		zzC14Op(rb, &m, c)
	}
	vReach("op-done")
	zzC14CheckState(rb, m, c)
}

// SliceFill sets every element (including the len >= 50 doubling branch)
func zzC14Fill() {
	n := vConcrete(vRange("n", 0, vParam("NF")))
	s := make([]int, n)
	for i := range s {
		s[i] = vInt("s")
	}
	v := vInt("v")
	SliceFill(s, v)
	vReach("op-done")
	for i := range s {
		vAssert(s[i] == v, "SliceFill left an element unset")
	}
}
