//go:build verif

package xbinary

// C15: decode(encode(x)) == x, predicted size == written size, writer == marshal,
// short buffers are rejected, concatenations decode back, newBuf=true gives independent data.

type zzSink struct{ data []byte }

func (s *zzSink) Write(p []byte) (int, error) {
	s.data = append(s.data, p...)
	return len(p), nil
}

// fixed widths: every value, every destination length 0..size+1
func zzC15Fixed() {
	kind := vChoose("kind", 4)
	size := []int{1, 2, 4, 8}[kind]
	dl := vRange("dl", 0, size+1)
	buf := zzWindow("dst", dl)
	v := vUint64("v")
	var n int
	var err error
	switch kind {
	case 0:
		n, err = MarshalByte(byte(v), buf)
	case 1:
		n, err = MarshalUint16(uint16(v), buf)
	case 2:
		n, err = MarshalUint32(uint32(v), buf)
	case 3:
		n, err = MarshalUint64(v, buf)
	}
	vAssert((err != nil) == (dl < size), "Marshal fails iff the buffer is shorter than the size")
	if err != nil {
		vAssert(n == 0, "failed Marshal reports bytes written")
		return
	}
	vAssert(n == size, "Marshal wrote a different number of bytes than the size")
	vReach("roundtrip")
	switch kind {
	case 0:
		c, r, e := UnmarshalByte(buf)
		vAssert(e == nil && c == size && r == byte(v), "byte round trip")
	case 1:
		c, r, e := UnmarshalUint16(buf)
		vAssert(e == nil && c == size && r == uint16(v), "uint16 round trip")
	case 2:
		c, r, e := UnmarshalUint32(buf)
		vAssert(e == nil && c == size && r == uint32(v), "uint32 round trip")
	case 3:
		c, r, e := UnmarshalUint64(buf)
		vAssert(e == nil && c == size && r == v, "uint64 round trip")
	}
	// writer emits identical bytes
	sink := &zzSink{}
	ow := &ObjectsWriter{Writer: sink}
	var wn int
	var werr error
	switch kind {
	case 0:
		wn, werr = ow.WriteByte(byte(v))
	case 1:
		wn, werr = ow.WriteUint16(uint16(v))
	case 2:
		wn, werr = ow.WriteUint32(uint32(v))
	case 3:
		wn, werr = ow.WriteUint64(v)
	}
	vAssert(werr == nil && wn == size && len(sink.data) == size, "writer count differs from size")
	for i := 0; i < size; i++ {
		vAssert(sink.data[i] == buf[i], "writer bytes differ from Marshal bytes")
	}
}

// varint: all 2^64 values at once, every destination length 0..11
func zzC15Varint() {
	v := vUint64("v")
	dl := vRange("dl", 0, 11)
	buf := zzWindow("dst", dl)
	size := WritableUintSize(v)
	vAssert(size >= 1 && size <= 10, "predicted varint size out of range")
	n, err := MarshalUint(uint(v), buf)
	vAssert((err != nil) == (dl < size), "MarshalUint fails iff the buffer is shorter than WritableUintSize")
	if err != nil {
		vAssert(n == 0, "failed MarshalUint reports bytes written")
		return
	}
	vAssert(n == size, "MarshalUint wrote a different number of bytes than WritableUintSize")
	vReach("roundtrip")
	c, r, e := UnmarshalUint(buf)
	vAssert(e == nil, "UnmarshalUint of an encoded value failed")
	vAssert(c == size, "UnmarshalUint consumed a different number of bytes")
	vAssert(uint64(r) == v, "varint round trip changed the value")
	sink := &zzSink{}
	ow := &ObjectsWriter{Writer: sink}
	wn, werr := ow.WriteUint(uint(v))
	vAssert(werr == nil && wn == size && len(sink.data) == size, "WriteUint count differs from size")
	for i := 0; i < size; i++ {
		vAssert(sink.data[i] == buf[i], "WriteUint bytes differ from MarshalUint bytes")
	}
}

var zzC15Lens = []int{0, 1, 2, 3, 4, 5, 6, 7, 8, 9, 10, 11, 12, 13, 14, 15, 16, 17, 18, 19, 20, 126, 127, 128, 129, 16382, 16383, 16384, 16385}

// byte strings and strings around the 1-2-3 byte length-prefix boundaries
func zzC15Bytes() {
	li := vChoose("Lidx", vParam("NL"))
	L := zzC15Lens[li]
	v := vBytes("v", L)
	asString := vBool("asString")
	var size int
	if asString {
		size = WritableStringSize(string(v))
	} else {
		size = WritebleBytesSize(v)
	}
	vAssert(size == L+WritableUintSize(uint64(L)), "predicted size is not prefix+body")
	var dl int
	if L <= 4 {
		dl = vRange("dl", 0, size+1)
		dl = vConcrete(dl)
	} else {
		dl = []int{0, 1, size - 1, size, size + 1}[vChoose("dlk", 5)]
	}
	buf := zzWindow("dst", dl)
	var n int
	var err error
	if asString {
		n, err = MarshalString(string(v), buf)
	} else {
		n, err = MarshalBytes(v, buf)
	}
	vAssert((err != nil) == (dl < size), "Marshal fails iff the buffer is shorter than the predicted size")
	if err != nil {
		vAssert(n == 0, "failed Marshal reports bytes written")
		return
	}
	vAssert(n == size, "Marshal wrote a different number of bytes than predicted")
	vReach("roundtrip")
	newBuf := vBool("newBuf")
	if asString {
		c, r, e := UnmarshalString(buf, newBuf)
		vAssert(e == nil && c == size && len(r) == L, "string round trip: consumed/length")
		for i := 0; i < L; i++ {
			vAssert(r[i] == v[i], "string round trip changed a byte")
		}
		if newBuf && L > 0 {
			old := v[L-1]
			buf[size-1] = old ^ 0xff
			vAssert(r[L-1] == old, "newBuf=true string still aliases the source buffer")
		}
	} else {
		c, r, e := UnmarshalBytes(buf, newBuf)
		vAssert(e == nil && c == size && len(r) == L, "bytes round trip: consumed/length")
		for i := 0; i < L; i++ {
			vAssert(r[i] == v[i], "bytes round trip changed a byte")
		}
		if newBuf && L > 0 {
			old := v[L-1]
			buf[size-1] = old ^ 0xff
			vAssert(r[L-1] == old, "newBuf=true result still aliases the source buffer")
		}
		if newBuf {
			// also for an empty value: a zero-length window into the source keeps its capacity, so an
			// append to the decoded value would overwrite the items that follow it in the source
			vAssert(!vSameCell(r, buf), "newBuf=true result shares the source buffer's backing array")
		}
	}
	// writer emits identical bytes (the source buffer may have been modified above: re-marshal)
	buf2 := make([]byte, size)
	MarshalBytes(v, buf2)
	sink := &zzSink{}
	ow := &ObjectsWriter{Writer: sink}
	var wn int
	var werr error
	if asString {
		wn, werr = ow.WriteString(string(v))
	} else {
		wn, werr = ow.WriteBytes(v)
	}
	vAssert(werr == nil && wn == size && len(sink.data) == size, "writer count differs from predicted size")
	for i := 0; i < size; i++ {
		vAssert(sink.data[i] == buf2[i], "writer bytes differ from Marshal bytes")
	}
}

// any concatenation of encoded items decodes back to the same item sequence
func zzC15Concat() {
	const items = 3
	var kinds [items]int
	var nums [items]uint64
	var strs [items][]byte
	total := 0
	for i := 0; i < items; i++ {
		kinds[i] = vChoose("kind", 6)
		switch kinds[i] {
		case 0:
			nums[i] = uint64(vByte("b"))
			total += 1
		case 1:
			nums[i] = uint64(vUint16("u16"))
			total += 2
		case 2:
			nums[i] = uint64(vUint32("u32"))
			total += 4
		case 3:
			nums[i] = vUint64("u64")
			total += 8
		case 4:
			nums[i] = vUint64("uv")
			total += WritableUintSize(nums[i])
		case 5:
			strs[i] = vBytes("bs", vRange("L", 0, 3))
			total += WritebleBytesSize(strs[i])
		}
	}
	total = vConcrete(total)
	buf := make([]byte, total)
	off := 0
	for i := 0; i < items; i++ {
		var n int
		var err error
		switch kinds[i] {
		case 0:
			n, err = MarshalByte(byte(nums[i]), buf[off:])
		case 1:
			n, err = MarshalUint16(uint16(nums[i]), buf[off:])
		case 2:
			n, err = MarshalUint32(uint32(nums[i]), buf[off:])
		case 3:
			n, err = MarshalUint64(nums[i], buf[off:])
		case 4:
			n, err = MarshalUint(uint(nums[i]), buf[off:])
		case 5:
			n, err = MarshalBytes(strs[i], buf[off:])
		}
		vAssert(err == nil, "encoding into an exactly sized buffer failed")
		off += n
	}
	vAssert(off == total, "sum of written sizes differs from sum of predicted sizes")
	vReach("encoded")
	off = 0
	for i := 0; i < items; i++ {
		switch kinds[i] {
		case 0:
			c, r, e := UnmarshalByte(buf[off:])
			vAssert(e == nil && uint64(r) == nums[i], "concat: byte")
			off += c
		case 1:
			c, r, e := UnmarshalUint16(buf[off:])
			vAssert(e == nil && uint64(r) == nums[i], "concat: uint16")
			off += c
		case 2:
			c, r, e := UnmarshalUint32(buf[off:])
			vAssert(e == nil && uint64(r) == nums[i], "concat: uint32")
			off += c
		case 3:
			c, r, e := UnmarshalUint64(buf[off:])
			vAssert(e == nil && r == nums[i], "concat: uint64")
			off += c
		case 4:
			c, r, e := UnmarshalUint(buf[off:])
			vAssert(e == nil && uint64(r) == nums[i], "concat: varint")
			off += c
		case 5:
			nb := vBool("newBuf")
			c, r, e := UnmarshalBytes(buf[off:], nb)
			vAssert(e == nil && len(r) == len(strs[i]), "concat: bytes")
			if nb {
				// independent of the source even when empty (cap(r) would reach the items that follow)
				vAssert(!vSameCell(r, buf), "concat: newBuf=true result can reach the source buffer")
			}
			for j := range r {
				vAssert(r[j] == strs[i][j], "concat: bytes content")
			}
			off += c
		}
	}
	vAssert(off == total, "decoding did not consume exactly the encoded bytes")
}
