//go:build verif

package redis

// Differential validation of the command-level Redis stub (zz_verif_redis.go) against miniredis driven through the
// real go-redis client: the same seeded random command sequences go to both, every reply is compared.
// Run natively by the check (never by the engine). Expiry is not exercised here (the stub reads the real clock).

import (
	"context"
	"fmt"
	"math/rand"
	"os"
	"sort"
	"strconv"
	"testing"
	"time"

	"github.com/alicebob/miniredis/v2"
	"github.com/go-redis/redis/v8"
)

func TestZZStubVsMiniredis(t *testing.T) {
	seed := int64(1)
	if s := os.Getenv("VERIF_SEED"); s != "" {
		if v, err := strconv.Atoi(s); err == nil {
			seed = int64(v)
		}
	}
	ctx := context.Background()
	agree := 0
	for round := 0; round < 40; round++ {
		mr, err := miniredis.Run()
		if err != nil {
			t.Fatal(err)
		}
		rdb := redis.NewClient(&redis.Options{Addr: mr.Addr()})
		zzNewServer()
		rng := rand.New(rand.NewSource(seed*1000 + int64(round)))
		keys := []string{"/kvs/a", "/kvs/b", "/kvs/c"}
		vals := []string{"x", "y", ""}
		k := func() string { return keys[rng.Intn(len(keys))] }
		v := func() string { return vals[rng.Intn(len(vals))] }
		ttl := func() time.Duration { return []time.Duration{0, time.Hour}[rng.Intn(2)] }
		for step := 0; step < 60; step++ {
			var real, stub string
			switch rng.Intn(8) {
			case 0:
				key, val, d := k(), v(), ttl()
				a, e1 := rdb.SetNX(ctx, key, val, d).Result()
				b, e2 := zzSetNX(nil, ctx, key, val, d).Result()
				real, stub = fmt.Sprint("setnx ", a, e1), fmt.Sprint("setnx ", b, e2)
			case 1:
				key := k()
				a, e1 := rdb.Get(ctx, key).Result()
				b, e2 := zzGet(nil, ctx, key).Result()
				real, stub = fmt.Sprint("get ", a, e1), fmt.Sprint("get ", b, e2)
			case 2:
				ks := []string{k(), k()}
				a, e1 := rdb.MGet(ctx, ks...).Result()
				b, e2 := zzMGet(nil, ctx, ks...).Result()
				real, stub = fmt.Sprint("mget ", a, e1), fmt.Sprint("mget ", b, e2)
			case 3:
				key, val, d := k(), v(), ttl()
				a, e1 := rdb.Set(ctx, key, val, d).Result()
				b, e2 := zzSet(nil, ctx, key, val, d).Result()
				real, stub = fmt.Sprint("set ", a, e1), fmt.Sprint("set ", b, e2)
			case 4:
				kv := []string{k(), v(), k(), v()}
				a, e1 := rdb.MSet(ctx, kv).Result()
				b, e2 := zzMSet(nil, ctx, kv).Result()
				real, stub = fmt.Sprint("mset ", a, e1), fmt.Sprint("mset ", b, e2)
			case 5:
				key := k()
				a, e1 := rdb.Del(ctx, key).Result()
				b, e2 := zzDel(nil, ctx, key).Result()
				real, stub = fmt.Sprint("del ", a, e1), fmt.Sprint("del ", b, e2)
			case 6:
				pat := []string{"/kvs/*", "/kvs/a*", "/kvs/zz"}[rng.Intn(3)]
				var a, b []string
				it := rdb.Scan(ctx, 0, pat, 1000).Iterator()
				for it.Next(ctx) {
					a = append(a, it.Val())
				}
				it2 := zzScan(nil, ctx, 0, pat, 1000).Iterator()
				for it2.Next(ctx) {
					b = append(b, it2.Val())
				}
				sort.Strings(a)
				sort.Strings(b)
				real, stub = fmt.Sprint("scan ", a), fmt.Sprint("scan ", b)
			case 7:
				// WATCH k; GET k; (optionally another client modifies k); MULTI; SET k; EXEC
				key, val, interfere := k(), v(), rng.Intn(2) == 1
				run := func(watch func(fn func(*redis.Tx) error, keys ...string) error, other func()) string {
					var got string
					err := watch(func(tx *redis.Tx) error {
						g, gerr := tx.Get(ctx, key).Result()
						got = fmt.Sprint(g, gerr)
						if interfere {
							other()
						}
						_, perr := tx.TxPipelined(ctx, func(p redis.Pipeliner) error {
							_, e := p.Set(ctx, key, val, 0).Result()
							return e
						})
						return perr
					}, key)
					return fmt.Sprint("watch ", got, err)
				}
				real = run(func(fn func(*redis.Tx) error, ks ...string) error { return rdb.Watch(ctx, fn, ks...) },
					func() { rdb.Set(ctx, key, "other", 0) })
				stub = zzRunWatchNative(ctx, key, val, interfere)
			}
			if real != stub {
				t.Fatalf("STUB-MISMATCH round %d step %d: miniredis %q, stub %q", round, step, real, stub)
			}
			agree++
		}
		rdb.Close()
		mr.Close()
	}
	fmt.Printf("STUB-AGREE %d\n", agree)
}

// the stub side of case 7: natively the go-redis entry points are not redirected, so the stub functions are
// called directly in the order the real client would issue the commands
func zzRunWatchNative(ctx context.Context, key, val string, interfere bool) string {
	var got string
	err := zzWatch(nil, ctx, func(tx *redis.Tx) error {
		g, gerr := zzGet(nil, ctx, key).Result()
		got = fmt.Sprint(g, gerr)
		if interfere {
			zzSet(nil, ctx, key, "other", 0)
		}
		_, perr := zzTxPipelined(tx, ctx, func(p redis.Pipeliner) error {
			_, e := p.Set(ctx, key, val, 0).Result()
			return e
		})
		return perr
	}, key)
	return fmt.Sprint("watch ", got, err)
}
