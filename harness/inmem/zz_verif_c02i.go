//go:build verif

package inmem

import "github.com/acquirecloud/golibs/kvs"

// C02 (inmem): T concurrent clients, one operation each, on one key
func zzC02Inmem() {
	st := New()
	s := st.(*service)
	pre := vBool("prePresent")
	if pre {
		s.recs["a"] = kvs.Record{Key: "a", Value: []byte{1}, Version: "pre-version"}
	}
	vGuardedBy(s.recs, &s.lock)
	vGuardedBy(s.verChange, &s.lock)
	zzC02Run(st, pre, "a")
	vAssert(!vHeld(&s.lock), "service lock still held at quiescence")
}
