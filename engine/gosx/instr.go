package gosx

import (
	"fmt"
	"go/constant"
	"go/token"
	"go/types"

	"golang.org/x/tools/go/ssa"
)

func constantStringVal(c *ssa.Const) string {
	if c.Value.Kind() == constant.String {
		return constant.StringVal(c.Value)
	}
	return c.Value.String()
}

func (x *Exec) jump(f *Frame, to *ssa.BasicBlock) {
	from := f.block
	x.blocks++
	// evaluate phis simultaneously
	predIdx := -1
	for i, p := range to.Preds {
		if p == from {
			predIdx = i
			break
		}
	}
	var phis []*ssa.Phi
	var vals []Value
	for _, in := range to.Instrs {
		phi, ok := in.(*ssa.Phi)
		if !ok {
			break
		}
		phis = append(phis, phi)
		vals = append(vals, x.get(f, phi.Edges[predIdx]))
	}
	for i, phi := range phis {
		x.set(f, phi, vals[i])
	}
	f.block = to
	f.ip = len(phis)
}

func (x *Exec) execInstr(t *Thread, f *Frame, instr ssa.Instruction) {
	switch in := instr.(type) {
	case *ssa.DebugRef:
		f.ip++
	case *ssa.Alloc:
		c := x.newCell(in.Type().(*types.Pointer).Elem())
		x.set(f, in, Ptr{C: c})
		f.ip++
	case *ssa.BinOp:
		x.set(f, in, x.binop(in.Op, x.get(f, in.X), x.get(f, in.Y), in.X.Type(), in.Y.Type()))
		f.ip++
	case *ssa.UnOp:
		x.execUnOp(t, f, in)
	case *ssa.Phi:
		// only reached at function entry blocks without preds (cannot happen)
		f.ip++
	case *ssa.Call:
		x.execCall(t, f, &in.Call, in)
	case *ssa.ChangeInterface:
		x.set(f, in, x.get(f, in.X))
		f.ip++
	case *ssa.ChangeType:
		x.set(f, in, x.get(f, in.X))
		f.ip++
	case *ssa.Convert:
		x.set(f, in, x.convert(x.get(f, in.X), in.X.Type(), in.Type()))
		f.ip++
	case *ssa.MultiConvert:
		x.set(f, in, x.convert(x.get(f, in.X), in.X.Type(), in.Type()))
		f.ip++
	case *ssa.Extract:
		tv := x.get(f, in.Tuple).(Tuple)
		x.set(f, in, tv[in.Index])
		f.ip++
	case *ssa.Field:
		sv := x.get(f, in.X).(*StructVal)
		x.set(f, in, sv.F[in.Field])
		f.ip++
	case *ssa.FieldAddr:
		p := x.get(f, in.X).(Ptr)
		if p.IsNil() {
			x.goPanic("nil pointer dereference")
		}
		if p.C == nil {
			x.unsupported("field address through symbolic-index pointer")
		}
		x.set(f, in, Ptr{C: p.C.Sub[in.Field]})
		f.ip++
	case *ssa.Index:
		x.execIndex(f, in)
	case *ssa.IndexAddr:
		x.execIndexAddr(f, in)
	case *ssa.Lookup:
		x.execLookup(f, in)
	case *ssa.MakeChan:
		sz := x.get(f, in.Size).(*Term)
		n := int(x.concretize(sz, "chan size"))
		x.objID++
		ch := &ChanObj{Cap: n, Elem: in.Type().Underlying().(*types.Chan).Elem(), ID: x.objID}
		x.set(f, in, ch)
		f.ip++
	case *ssa.MakeClosure:
		cl := &Closure{Fn: in.Fn.(*ssa.Function)}
		for _, b := range in.Bindings {
			cl.Free = append(cl.Free, x.get(f, b))
		}
		x.set(f, in, cl)
		f.ip++
	case *ssa.MakeInterface:
		x.set(f, in, Iface{T: in.X.Type(), V: x.get(f, in.X)})
		f.ip++
	case *ssa.MakeMap:
		mt := in.Type().Underlying().(*types.Map)
		x.objID++
		x.set(f, in, &MapObj{KT: mt.Key(), VT: mt.Elem(), ID: x.objID})
		f.ip++
	case *ssa.MakeSlice:
		x.execMakeSlice(f, in)
	case *ssa.MapUpdate:
		m := x.get(f, in.Map).(*MapObj)
		if m == nil {
			x.goPanic("assignment to entry in nil map")
		}
		x.mapStore(m, x.get(f, in.Key), x.get(f, in.Value))
		f.ip++
	case *ssa.Range:
		x.execRange(f, in)
	case *ssa.Next:
		x.execNext(f, in)
	case *ssa.Slice:
		x.execSlice(f, in)
	case *ssa.SliceToArrayPointer:
		x.unsupported("SliceToArrayPointer")
	case *ssa.Store:
		p := x.get(f, in.Addr).(Ptr)
		x.store(p, x.get(f, in.Val))
		f.ip++
	case *ssa.TypeAssert:
		x.execTypeAssert(f, in)
	case *ssa.If:
		c := x.get(f, in.Cond).(*Term)
		if !c.IsConst() && x.known(c) == 0 {
			if f.symIf == nil {
				f.symIf = map[*ssa.If]int{}
			}
			f.symIf[in]++
			if f.symIf[in] > x.P.Cfg.Unwind {
				x.end("inconclusive", fmt.Sprintf("unwind: symbolic loop condition taken more than %d times at %s", x.P.Cfg.Unwind, x.lastPos))
			}
		}
		if x.branch(c) {
			x.jump(f, f.block.Succs[0])
		} else {
			x.jump(f, f.block.Succs[1])
		}
	case *ssa.Jump:
		x.jump(f, f.block.Succs[0])
	case *ssa.Return:
		var ret Value
		switch len(in.Results) {
		case 0:
		case 1:
			ret = x.get(f, in.Results[0])
		default:
			tv := make(Tuple, len(in.Results))
			for i, r := range in.Results {
				tv[i] = x.get(f, r)
			}
			ret = tv
		}
		x.doReturn(t, f, ret)
	case *ssa.Panic:
		v := x.get(f, in.X)
		msg := "panic"
		if iv, ok := v.(Iface); ok {
			if s, ok := iv.V.(Str); ok {
				msg = x.strDisplay(s)
			} else {
				msg = x.describe(v)
			}
		}
		panic(goPanicSignal{msg: msg, val: v})
	case *ssa.RunDefers:
		if len(f.defers) == 0 {
			f.ip++
			return
		}
		d := f.defers[len(f.defers)-1]
		f.defers = f.defers[:len(f.defers)-1]
		x.invoke(t, d.fn, d.args, nil, true)
	case *ssa.Defer:
		fn, args := x.callTarget(f, &in.Call)
		f.defers = append(f.defers, deferred{fn, args})
		f.ip++
	case *ssa.Go:
		fn, args := x.callTarget(f, &in.Call)
		f.ip++
		x.spawnThread("go", fn, args)
	case *ssa.Send:
		x.execSend(t, f, in)
	case *ssa.Select:
		x.execSelect(t, f, in)
	default:
		x.unsupported(fmt.Sprintf("instruction %T", instr))
	}
}

// ---------------------------------------------------------------------
// arithmetic

func (x *Exec) resize(t *Term, from types.Type, w int) *Term {
	if t.W == w {
		return t
	}
	if t.W > w {
		return x.F.Extract(t, w-1, 0)
	}
	if isSigned(from) {
		return x.F.SExt(t, w)
	}
	return x.F.ZExt(t, w)
}

func (x *Exec) binop(op token.Token, a, b Value, ta, tb types.Type) Value {
	switch av := a.(type) {
	case *Term:
		bv := b.(*Term)
		if av.W == 0 {
			switch op {
			case token.EQL:
				return x.F.Eq(av, bv)
			case token.NEQ:
				return x.F.Not(x.F.Eq(av, bv))
			case token.AND, token.LAND:
				return x.F.And(av, bv)
			case token.OR, token.LOR:
				return x.F.Or(av, bv)
			case token.XOR:
				return x.F.Not(x.F.Eq(av, bv))
			}
			x.unsupported("bool binop " + op.String())
		}
		signed := isSigned(ta)
		switch op {
		case token.ADD:
			return x.F.BinBV(OpAdd, av, bv)
		case token.SUB:
			return x.F.BinBV(OpSub, av, bv)
		case token.MUL:
			return x.F.BinBV(OpMul, av, bv)
		case token.QUO, token.REM:
			x.panicIf(x.F.Eq(bv, x.F.BV(bv.W, 0)), "integer divide by zero")
			var o Op
			switch {
			case op == token.QUO && signed:
				o = OpSDiv
			case op == token.QUO:
				o = OpUDiv
			case signed:
				o = OpSRem
			default:
				o = OpURem
			}
			return x.F.BinBV(o, av, bv)
		case token.AND:
			return x.F.BinBV(OpAnd, av, bv)
		case token.OR:
			return x.F.BinBV(OpOr, av, bv)
		case token.XOR:
			return x.F.BinBV(OpXor, av, bv)
		case token.AND_NOT:
			return x.F.BinBV(OpAnd, av, x.F.NotBV(bv))
		case token.SHL, token.SHR:
			return x.shift(op, av, bv, signed, isSigned(tb))
		case token.EQL:
			return x.F.Eq(av, bv)
		case token.NEQ:
			return x.F.Not(x.F.Eq(av, bv))
		case token.LSS:
			if signed {
				return x.F.Cmp(OpSlt, av, bv)
			}
			return x.F.Cmp(OpUlt, av, bv)
		case token.LEQ:
			if signed {
				return x.F.Cmp(OpSle, av, bv)
			}
			return x.F.Cmp(OpUle, av, bv)
		case token.GTR:
			if signed {
				return x.F.Cmp(OpSlt, bv, av)
			}
			return x.F.Cmp(OpUlt, bv, av)
		case token.GEQ:
			if signed {
				return x.F.Cmp(OpSle, bv, av)
			}
			return x.F.Cmp(OpUle, bv, av)
		}
	case Str:
		bv := b.(Str)
		switch op {
		case token.ADD:
			if av.Arr == nil && bv.Arr == nil {
				return Str{K: av.K + bv.K}
			}
			return x.strFromBytes(append(x.strBytes(av), x.strBytes(bv)...))
		case token.EQL:
			return x.strEq(av, bv)
		case token.NEQ:
			return x.F.Not(x.strEq(av, bv))
		case token.LSS:
			return x.strLess(av, bv)
		case token.GTR:
			return x.strLess(bv, av)
		case token.LEQ:
			return x.F.Not(x.strLess(bv, av))
		case token.GEQ:
			return x.F.Not(x.strLess(av, bv))
		}
	case FloatVal:
		bv := b.(FloatVal)
		switch op {
		case token.ADD:
			return FloatVal{av.F + bv.F}
		case token.SUB:
			return FloatVal{av.F - bv.F}
		case token.MUL:
			return FloatVal{av.F * bv.F}
		case token.QUO:
			return FloatVal{av.F / bv.F}
		case token.LSS:
			return x.F.Bool(av.F < bv.F)
		case token.GTR:
			return x.F.Bool(av.F > bv.F)
		case token.EQL:
			return x.F.Bool(av.F == bv.F)
		}
	}
	switch op {
	case token.EQL:
		return x.valueEq(a, b)
	case token.NEQ:
		return x.F.Not(x.valueEq(a, b))
	}
	x.unsupported(fmt.Sprintf("binop %s on %T", op, a))
	return nil
}

func (x *Exec) shift(op token.Token, a, cnt *Term, signed, cntSigned bool) Value {
	if cntSigned {
		x.panicIf(x.F.Cmp(OpSlt, cnt, x.F.BV(cnt.W, 0)), "negative shift amount")
	}
	w := a.W
	var big *Term
	var c *Term
	if cnt.W > w {
		big = x.F.Cmp(OpUle, x.F.BV(cnt.W, uint64(w)), cnt)
		c = x.F.Extract(cnt, w-1, 0)
	} else {
		big = x.F.False
		c = x.F.ZExt(cnt, w)
	}
	var r, over *Term
	switch {
	case op == token.SHL:
		r = x.F.BinBV(OpShl, a, c)
		over = x.F.BV(w, 0)
	case signed:
		r = x.F.BinBV(OpAShr, a, c)
		over = x.F.BinBV(OpAShr, a, x.F.BV(w, uint64(w-1)))
	default:
		r = x.F.BinBV(OpLShr, a, c)
		over = x.F.BV(w, 0)
	}
	return x.F.Ite(big, over, r)
}

func (x *Exec) execUnOp(t *Thread, f *Frame, in *ssa.UnOp) {
	v := x.get(f, in.X)
	switch in.Op {
	case token.MUL:
		p := v.(Ptr)
		if p.IsNil() {
			x.goPanic("nil pointer dereference")
		}
		x.set(f, in, x.load(p))
	case token.NOT:
		x.set(f, in, x.F.Not(v.(*Term)))
	case token.SUB:
		switch a := v.(type) {
		case *Term:
			x.set(f, in, x.F.NegBV(a))
		case FloatVal:
			x.set(f, in, FloatVal{-a.F})
		}
	case token.XOR:
		x.set(f, in, x.F.NotBV(v.(*Term)))
	case token.ARROW:
		x.execRecv(t, f, in, v)
		return
	default:
		x.unsupported("unop " + in.Op.String())
	}
	f.ip++
}

func (x *Exec) convert(v Value, from, to types.Type) Value {
	fu, tu := from.Underlying(), to.Underlying()
	switch a := v.(type) {
	case *Term:
		if tb, ok := tu.(*types.Basic); ok {
			if tb.Info()&types.IsInteger != 0 {
				w, _, _ := intWidth(tb)
				return x.resize(a, from, w)
			}
			if tb.Info()&types.IsString != 0 {
				// string(rune)
				if a.IsConst() {
					return Str{K: string(rune(a.SVal()))}
				}
				if a.W == 8 {
					// string(byte) for ASCII only is exact; otherwise UTF-8 encoding is needed
					x.panicIfNotASCII(a)
					return x.strFromBytes([]*Term{a})
				}
				x.unsupported("string(symbolic rune)")
			}
			if tb.Info()&types.IsFloat != 0 {
				if a.IsConst() {
					if isSigned(from) {
						return FloatVal{float64(a.SVal())}
					}
					return FloatVal{float64(a.Val)}
				}
				x.unsupported("int to float conversion of symbolic value")
			}
			if tb.Kind() == types.UnsafePointer {
				x.unsupported("uintptr to unsafe.Pointer")
			}
		}
	case Str:
		if ts, ok := tu.(*types.Slice); ok {
			bs := x.strBytes(a)
			arr := x.newArrayCell(ts.Elem(), len(bs))
			if b, ok := ts.Elem().Underlying().(*types.Basic); ok && b.Kind() == types.Uint8 {
				for i, t := range bs {
					arr.Sub[i].V = t
				}
				return Slice{Arr: arr, Len: len(bs), Cap: len(bs), Elem: ts.Elem()}
			}
			x.unsupported("[]rune(string)")
		}
		if _, ok := tu.(*types.Basic); ok {
			return a
		}
	case Slice:
		if tb, ok := tu.(*types.Basic); ok && tb.Info()&types.IsString != 0 {
			bs := make([]*Term, a.Len)
			for i := 0; i < a.Len; i++ {
				bs[i] = x.loadCell(a.Arr.Sub[a.Off+i]).(*Term)
			}
			return x.strFromBytes(bs)
		}
		if _, ok := tu.(*types.Slice); ok {
			return a
		}
	case Ptr:
		if _, ok := tu.(*types.Pointer); ok {
			return a
		}
		if tb, ok := tu.(*types.Basic); ok && tb.Kind() == types.UnsafePointer {
			return a
		}
		if _, ok := fu.(*types.Basic); ok {
			// unsafe.Pointer -> *T : only allowed when layouts are identical in our cell model
			return a
		}
	case FloatVal:
		if tb, ok := tu.(*types.Basic); ok {
			if tb.Info()&types.IsFloat != 0 {
				return a
			}
			if tb.Info()&types.IsInteger != 0 {
				w, _, _ := intWidth(tb)
				return x.F.BV(w, uint64(int64(a.F)))
			}
		}
	}
	x.unsupported(fmt.Sprintf("conversion %s -> %s (%T)", from, to, v))
	return nil
}

func (x *Exec) panicIfNotASCII(a *Term) {
	if !x.branch(x.F.Cmp(OpUlt, a, x.F.BV(8, 128))) {
		x.unsupported("string(byte >= 0x80)")
	}
}

// ---------------------------------------------------------------------
// indexing

func (x *Exec) intTerm(v Value) *Term {
	return v.(*Term)
}

// boundsCheck panics (forking) unless 0 <= idx < n; idxT is the static type of the index expression.
func (x *Exec) boundsCheck(idx *Term, idxT types.Type, n int) {
	var bad *Term
	lim := x.F.BV(idx.W, uint64(n))
	if isSigned(idxT) {
		bad = x.F.Or(x.F.Cmp(OpSlt, idx, x.F.BV(idx.W, 0)), x.F.Cmp(OpSle, lim, idx))
	} else {
		bad = x.F.Cmp(OpUle, lim, idx)
	}
	x.panicIf(bad, fmt.Sprintf("index out of range [%s] with length %d", idx.String(), n))
}

func (x *Exec) indexCells(cells []*Cell, idx *Term, elem types.Type) Ptr {
	if idx.IsConst() {
		return Ptr{C: cells[idx.Val]}
	}
	if len(cells) == 1 {
		return Ptr{C: cells[0]}
	}
	if mergeable(elem) && len(cells) <= x.P.Cfg.SymIndexLimit {
		return Ptr{Alts: cells, Idx: idx}
	}
	i := x.concretize(idx, "index")
	return Ptr{C: cells[i]}
}

func (x *Exec) execIndexAddr(f *Frame, in *ssa.IndexAddr) {
	idx := x.intTerm(x.get(f, in.Index))
	switch xv := x.get(f, in.X).(type) {
	case Slice:
		x.boundsCheck(idx, in.Index.Type(), xv.Len)
		x.set(f, in, x.indexCells(xv.Arr.Sub[xv.Off:xv.Off+xv.Len], idx, xv.Elem))
	case Ptr:
		if xv.IsNil() {
			x.goPanic("nil pointer dereference")
		}
		if xv.C == nil {
			x.unsupported("index through symbolic pointer")
		}
		x.boundsCheck(idx, in.Index.Type(), len(xv.C.Sub))
		et := xv.C.Typ.Underlying().(*types.Array).Elem()
		x.set(f, in, x.indexCells(xv.C.Sub, idx, et))
	default:
		x.unsupported(fmt.Sprintf("IndexAddr on %T", xv))
	}
	f.ip++
}

func (x *Exec) execIndex(f *Frame, in *ssa.Index) {
	idx := x.intTerm(x.get(f, in.Index))
	switch xv := x.get(f, in.X).(type) {
	case *ArrayVal:
		x.boundsCheck(idx, in.Index.Type(), len(xv.E))
		if idx.IsConst() {
			x.set(f, in, xv.E[idx.Val])
		} else {
			var res Value
			for i := len(xv.E) - 1; i >= 0; i-- {
				if res == nil {
					res = xv.E[i]
				} else {
					res = x.iteValue(x.F.Eq(idx, x.F.BV(idx.W, uint64(i))), xv.E[i], res)
				}
			}
			x.set(f, in, res)
		}
	case Str:
		x.set(f, in, x.strIndex(xv, idx, in.Index.Type()))
	default:
		x.unsupported(fmt.Sprintf("Index on %T", xv))
	}
	f.ip++
}

func (x *Exec) strIndex(s Str, idx *Term, idxT types.Type) *Term {
	x.boundsCheck(idx, idxT, s.N())
	bs := x.strBytes(s)
	if idx.IsConst() {
		return bs[idx.Val]
	}
	var res *Term
	for i := len(bs) - 1; i >= 0; i-- {
		if res == nil {
			res = bs[i]
		} else {
			res = x.F.Ite(x.F.Eq(idx, x.F.BV(idx.W, uint64(i))), bs[i], res)
		}
	}
	return res
}

func (x *Exec) execLookup(f *Frame, in *ssa.Lookup) {
	switch xv := x.get(f, in.X).(type) {
	case Str:
		idx := x.intTerm(x.get(f, in.Index))
		x.set(f, in, x.strIndex(xv, idx, in.Index.Type()))
	case *MapObj:
		vt := in.X.Type().Underlying().(*types.Map).Elem()
		var v Value
		ok := false
		if xv != nil {
			v, ok = x.mapLookup(xv, x.get(f, in.Index))
		}
		if !ok {
			v = x.zero(vt)
		}
		if in.CommaOk {
			x.set(f, in, Tuple{v, x.F.Bool(ok)})
		} else {
			x.set(f, in, v)
		}
	default:
		x.unsupported(fmt.Sprintf("Lookup on %T", xv))
	}
	f.ip++
}

func (x *Exec) execMakeSlice(f *Frame, in *ssa.MakeSlice) {
	lt := x.intTerm(x.get(f, in.Len))
	ct := x.intTerm(x.get(f, in.Cap))
	x.panicIf(x.F.Cmp(OpSlt, lt, x.F.BV(lt.W, 0)), "makeslice: len out of range")
	x.panicIf(x.F.Cmp(OpSlt, ct, lt), "makeslice: cap out of range")
	n := int(x.concretize(lt, "make len"))
	c := int(x.concretize(ct, "make cap"))
	if c > x.P.Cfg.MaxAlloc {
		x.end("inconclusive", fmt.Sprintf("make: capacity %d exceeds engine limit", c))
	}
	et := in.Type().Underlying().(*types.Slice).Elem()
	arr := x.newArrayCell(et, c)
	x.set(f, in, Slice{Arr: arr, Off: 0, Len: n, Cap: c, Elem: et})
	f.ip++
}

func (x *Exec) execSlice(f *Frame, in *ssa.Slice) {
	var cells *Cell
	var off, ln, cp int
	var elem types.Type
	isStr := false
	var sv Str
	switch xv := x.get(f, in.X).(type) {
	case Slice:
		cells, off, ln, cp, elem = xv.Arr, xv.Off, xv.Len, xv.Cap, xv.Elem
	case Ptr:
		if xv.IsNil() {
			x.goPanic("nil pointer dereference")
		}
		cells, off, ln, cp = xv.C, 0, len(xv.C.Sub), len(xv.C.Sub)
		elem = xv.C.Typ.Underlying().(*types.Array).Elem()
	case Str:
		isStr = true
		sv = xv
		ln, cp = xv.N(), xv.N()
	default:
		x.unsupported(fmt.Sprintf("Slice on %T", xv))
	}
	W := 64
	lo := x.F.BV(W, 0)
	hi := x.F.BV(W, uint64(ln))
	mx := x.F.BV(W, uint64(cp))
	if in.Low != nil {
		lo = x.resize(x.intTerm(x.get(f, in.Low)), in.Low.Type(), W)
	}
	if in.High != nil {
		hi = x.resize(x.intTerm(x.get(f, in.High)), in.High.Type(), W)
	}
	if in.Max != nil {
		mx = x.resize(x.intTerm(x.get(f, in.Max)), in.Max.Type(), W)
	}
	// 0 <= lo <= hi <= max <= cap  (unsigned comparisons also catch negatives)
	capT := x.F.BV(W, uint64(cp))
	bad := x.F.Or(x.F.Cmp(OpUlt, capT, mx), x.F.Or(x.F.Cmp(OpUlt, mx, hi), x.F.Cmp(OpUlt, hi, lo)))
	x.panicIf(bad, fmt.Sprintf("slice bounds out of range [%s:%s] with capacity %d", lo, hi, cp))
	l := int(x.concretize(lo, "slice low"))
	h := int(x.concretize(hi, "slice high"))
	m := int(x.concretize(mx, "slice max"))
	if isStr {
		if sv.Arr == nil {
			x.set(f, in, Str{K: sv.K[l:h]})
		} else {
			x.set(f, in, Str{Arr: sv.Arr, Off: sv.Off + l, Len: h - l})
		}
	} else {
		if cells == nil {
			x.set(f, in, Slice{Elem: elem})
		} else {
			x.set(f, in, Slice{Arr: cells, Off: off + l, Len: h - l, Cap: m - l, Elem: elem})
		}
	}
	f.ip++
}

func (x *Exec) execTypeAssert(f *Frame, in *ssa.TypeAssert) {
	iv := x.get(f, in.X).(Iface)
	ok := false
	var res Value
	if iv.T != nil {
		if ti, isI := in.AssertedType.Underlying().(*types.Interface); isI {
			ok = types.Implements(iv.T, ti)
			if ok {
				res = iv
			}
		} else {
			ok = types.Identical(iv.T, in.AssertedType)
			if ok {
				res = iv.V
			}
		}
	}
	if !ok {
		if !in.CommaOk {
			dyn := "nil"
			if iv.T != nil {
				dyn = iv.T.String()
			}
			x.goPanic(fmt.Sprintf("interface conversion: interface is %s, not %s", dyn, in.AssertedType))
		}
		res = x.zero(in.AssertedType)
	}
	if in.CommaOk {
		x.set(f, in, Tuple{res, x.F.Bool(ok)})
	} else {
		x.set(f, in, res)
	}
	f.ip++
}

// ---------------------------------------------------------------------
// maps

func (x *Exec) mapFind(m *MapObj, k Value) *mapEntry {
	if m.Guard != nil {
		x.checkGuard(m.Guard, "map access")
	}
	var cands []*mapEntry
	var conds []*Term
	for _, e := range m.Entries {
		if e.Deleted {
			continue
		}
		eq := x.valueEq(e.K, k)
		switch x.known(eq) {
		case 1:
			return e
		case -1:
			continue
		}
		cands = append(cands, e)
		conds = append(conds, eq)
	}
	if len(cands) == 0 {
		return nil
	}
	ch := x.decide(len(cands)+1, func(i int) bool {
		if i < len(cands) {
			return x.check(conds[i]) == Sat
		}
		none := x.F.True
		for _, c := range conds {
			none = x.F.And(none, x.F.Not(c))
		}
		return x.check(none) == Sat
	})
	if ch < len(cands) {
		x.assume(conds[ch])
		return cands[ch]
	}
	for _, c := range conds {
		x.assume(x.F.Not(c))
	}
	return nil
}

func (x *Exec) mapLookup(m *MapObj, k Value) (Value, bool) {
	e := x.mapFind(m, k)
	if e == nil {
		return nil, false
	}
	return e.V, true
}

func (x *Exec) mapStore(m *MapObj, k, v Value) {
	e := x.mapFind(m, k)
	if e != nil {
		e.V = v
		return
	}
	m.Entries = append(m.Entries, &mapEntry{K: k, V: v})
	m.Live++
}

func (x *Exec) mapDelete(m *MapObj, k Value) {
	if m == nil {
		return
	}
	e := x.mapFind(m, k)
	if e != nil {
		e.Deleted = true
		m.Live--
	}
}

func (x *Exec) execRange(f *Frame, in *ssa.Range) {
	switch xv := x.get(f, in.X).(type) {
	case *MapObj:
		it := &mapIter{m: xv, rev: x.mapRev}
		if xv != nil && xv.Guard != nil {
			x.checkGuard(xv.Guard, "map range")
		}
		if it.rev && xv != nil {
			it.pos = len(xv.Entries) - 1
		}
		x.set(f, in, it)
	case Str:
		x.set(f, in, &mapIter{isStr: true, s: xv})
	default:
		x.unsupported(fmt.Sprintf("Range on %T", xv))
	}
	f.ip++
}

func (x *Exec) execNext(f *Frame, in *ssa.Next) {
	it := x.get(f, in.Iter).(*mapIter)
	tt := in.Type().(*types.Tuple)
	if it.isStr {
		n := it.s.N()
		if it.pos >= n {
			x.set(f, in, Tuple{x.F.False, x.F.BV(64, 0), x.F.BV(32, 0)})
		} else {
			b := x.strIndex(it.s, x.F.BV(64, uint64(it.pos)), types.Typ[types.Int])
			// ASCII only: a byte >= 0x80 would need UTF-8 decoding
			if !x.branch(x.F.Cmp(OpUlt, b, x.F.BV(8, 128))) {
				x.unsupported("range over string with non-ASCII bytes")
			}
			x.set(f, in, Tuple{x.F.True, x.F.BV(64, uint64(it.pos)), x.F.ZExt(b, 32)})
			it.pos++
		}
		f.ip++
		return
	}
	kz, vz := x.zeroOrNil(tt.At(1).Type()), x.zeroOrNil(tt.At(2).Type())
	if it.m == nil {
		x.set(f, in, Tuple{x.F.False, kz, vz})
		f.ip++
		return
	}
	for {
		if it.rev {
			if it.pos < 0 {
				break
			}
		} else if it.pos >= len(it.m.Entries) {
			break
		}
		e := it.m.Entries[it.pos]
		if it.rev {
			it.pos--
		} else {
			it.pos++
		}
		if e.Deleted {
			continue
		}
		x.set(f, in, Tuple{x.F.True, e.K, e.V})
		f.ip++
		return
	}
	x.set(f, in, Tuple{x.F.False, kz, vz})
	f.ip++
}

func (x *Exec) zeroOrNil(t types.Type) Value {
	if b, ok := t.(*types.Basic); ok && b.Kind() == types.Invalid {
		return nil
	}
	return x.zero(t)
}
