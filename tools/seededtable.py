#!/usr/bin/env python3
"""Regenerates the table of DESIGN.md section 0.6 from seeded/*/meta.json (one row per kept change)."""
import glob, json, os
p = '/verif/DESIGN.md'
s = open(p).read()
head = '| Change | Needs, to manifest | Result |\n|---|---|---|\n'
i = s.index(head)
j = s.index('\n\n', i)
rows = []
for d in sorted(glob.glob('/verif/seeded/C*')):
    m = json.load(open(d + '/meta.json'))
    rows.append('| %s | %s | %s |' % (os.path.basename(d), m['needs_to_manifest'].replace('|', '/'), m['checks_run'].replace('|', '/')))
open(p, 'w').write(s[:i] + head + '\n'.join(rows) + s[j:])
print(len(rows), 'rows')
