#!/usr/bin/env python3
"""keepmutant.py PROP K 'needs' 'caught by / result' : stores a confirmed seeded change under /verif/seeded/PROP-mK/"""
import json, os, shutil, sys
P, K, needs, result = sys.argv[1:5]
src = f"/tmp/mut/out/{P}"
dst = f"/verif/seeded/{P}-{os.environ.get('SUFFIX','m')}{K}"
os.makedirs(dst, exist_ok=True)
shutil.copy(f"{src}/m{K}.diff", f"{dst}/patch.diff")
shutil.copy(f"{src}/m{K}_demo_test.go", f"{dst}/demo_test.go")
if os.path.exists(f"{src}/m{K}.md"):
    shutil.copy(f"{src}/m{K}.md", f"{dst}/author_note.md")
demo_dir = open(f"{dst}/demo_test.go").readline().replace("// dir:", "").strip()
meta = {
    "property": P,
    "round": int(os.environ.get("ROUND", "1")),
    "breaks": open(f"{dst}/author_note.md").read()[:600] if os.path.exists(f"{dst}/author_note.md") else "",
    "needs_to_manifest": needs,
    "demo": {"file": "demo_test.go", "place_in": demo_dir, "fails_with_patch": True, "passes_without": True},
    "confirmed_by": "tools/trymutant.sh in a scratch worktree: patch applies, go build ./... ok, go test ./... green (except flaky timeout tests), demo fails with the patch and passes without",
    "checks_run": result,
}
json.dump(meta, open(f"{dst}/meta.json", "w"), indent=1)
print("kept", dst)
