//go:build verif

package redis

import (
	"context"
	"fmt"
	"time"

	"github.com/acquirecloud/golibs/errors"
	"github.com/acquirecloud/golibs/kvs"
	golibskvspb "github.com/acquirecloud/golibs/kvs/genproto/golibskvspb/v1"
	"github.com/go-redis/redis/v8"
	"google.golang.org/protobuf/proto"
	"google.golang.org/protobuf/types/known/timestamppb"
)

// Command-level contract stub of a Redis server reached through go-redis (v8). The real method bodies of
// redis.go run on top of it; every command is one atomic server step with a scheduling point before it.
//   SETNX/SET k v [PX], GET, MGET, MSET (clears expiry), DEL, SCAN 0 pattern, WATCH + GET + MULTI/SET/EXEC
//   (EXEC applies the queued SET iff no watched key was modified since WATCH, else redis.TxFailedErr).
// A key whose expiry instant is <= now is absent to every command. TTLs are taken exactly (instants are assumed
// to be multiples of 1 ms, go-redis would round otherwise).

type zzEntry struct {
	val    string
	hasExp bool
	exp    time.Time
	mod    int
}

type zzServer struct {
	keys []string
	ents []*zzEntry
	mods map[string]int
}

var zzSrv *zzServer

func zzNewServer() *zzServer {
	zzSrv = &zzServer{mods: map[string]int{}}
	return zzSrv
}

func (s *zzServer) find(k string) *zzEntry {
	for i, key := range s.keys {
		if key == k {
			e := s.ents[i]
			if e != nil && e.hasExp && !time.Now().Before(e.exp) {
				s.ents[i] = nil // expired
				s.mods[k]++
				return nil
			}
			return e
		}
	}
	return nil
}

func (s *zzServer) set(k, v string, ttl time.Duration) {
	e := &zzEntry{val: v}
	if ttl > 0 {
		e.hasExp, e.exp = true, time.Now().Add(ttl)
	} else if ttl == redis.KeepTTL {
		if old := s.find(k); old != nil {
			e.hasExp, e.exp = old.hasExp, old.exp
		}
	}
	s.mods[k]++
	for i, key := range s.keys {
		if key == k {
			s.ents[i] = e
			return
		}
	}
	s.keys = append(s.keys, k)
	s.ents = append(s.ents, e)
}

func (s *zzServer) del(k string) bool {
	if s.find(k) == nil {
		return false
	}
	for i, key := range s.keys {
		if key == k {
			s.ents[i] = nil
		}
	}
	s.mods[k]++
	return true
}

func zzAsString(v interface{}) string {
	switch x := v.(type) {
	case string:
		return x
	case []byte:
		return string(x)
	}
	panic("zzServer: unsupported value type")
}

// --- go-redis entry points (receiver first; the receiver value is not used) ---

func zzSetNX(recv any, ctx context.Context, key string, value interface{}, exp time.Duration) *redis.BoolCmd {
	vStep()
	if zzSrv.find(key) != nil {
		return redis.NewBoolResult(false, nil)
	}
	zzSrv.set(key, zzAsString(value), exp)
	return redis.NewBoolResult(true, nil)
}

// a transient server-side failure of the next GET issued by a waiter (a *zzCtx context marks the waiters' calls):
// the reply is an error other than redis.Nil
var (
	zzGetFaults int
	zzErrServer = fmt.Errorf("ERR server is busy")
)

func zzGet(recv any, ctx context.Context, key string) *redis.StringCmd {
	vStep()
	if _, waiter := ctx.(*zzCtx); waiter && zzGetFaults > 0 {
		zzGetFaults--
		return redis.NewStringResult("", zzErrServer)
	}
	e := zzSrv.find(key)
	if e == nil {
		return redis.NewStringResult("", redis.Nil)
	}
	return redis.NewStringResult(e.val, nil)
}

func zzMGet(recv any, ctx context.Context, keys ...string) *redis.SliceCmd {
	vStep()
	res := make([]interface{}, len(keys))
	for i, k := range keys {
		if e := zzSrv.find(k); e != nil {
			res[i] = e.val
		}
	}
	return redis.NewSliceResult(res, nil)
}

func zzSet(recv any, ctx context.Context, key string, value interface{}, exp time.Duration) *redis.StatusCmd {
	vStep()
	zzSrv.set(key, zzAsString(value), exp)
	return redis.NewStatusResult("OK", nil)
}

func zzMSet(recv any, ctx context.Context, values ...interface{}) *redis.StatusCmd {
	vStep()
	// redis.go passes one []string {k1, v1, k2, v2, ...}
	if len(values) == 1 {
		if kv, ok := values[0].([]string); ok {
			for i := 0; i+1 < len(kv); i += 2 {
				zzSrv.set(kv[i], kv[i+1], 0)
			}
			return redis.NewStatusResult("OK", nil)
		}
	}
	panic("zzServer: unsupported MSET argument shape")
}

func zzDel(recv any, ctx context.Context, keys ...string) *redis.IntCmd {
	vStep()
	n := int64(0)
	for _, k := range keys {
		if zzSrv.del(k) {
			n++
		}
	}
	return redis.NewIntResult(n, nil)
}

func zzScan(recv any, ctx context.Context, cursor uint64, match string, count int64) *redis.ScanCmd {
	vStep()
	var out []string
	for _, k := range zzSrv.keys {
		if zzSrv.find(k) != nil && zzMatch(match, k) {
			out = append(out, k)
		}
	}
	return redis.NewScanCmdResult(out, 0, nil)
}

type zzWatchState struct {
	keys []string
	mods []int
}

var zzWatches = map[*redis.Tx]*zzWatchState{}

func zzWatch(c *redis.Client, ctx context.Context, fn func(*redis.Tx) error, keys ...string) error {
	vStep()
	tx := new(redis.Tx)
	ws := &zzWatchState{keys: keys}
	for _, k := range keys {
		zzSrv.find(k) // an expiry that is due counts as a modification before WATCH
		ws.mods = append(ws.mods, zzSrv.mods[k])
	}
	zzWatches[tx] = ws
	return fn(tx)
}

type zzPipe struct {
	redis.Pipeliner
	keys []string
	vals []string
	ttls []time.Duration
}

func (p *zzPipe) Set(ctx context.Context, key string, value interface{}, exp time.Duration) *redis.StatusCmd {
	p.keys = append(p.keys, key)
	p.vals = append(p.vals, zzAsString(value))
	p.ttls = append(p.ttls, exp)
	return redis.NewStatusResult("", nil) // queued: the reply arrives with EXEC
}

func zzTxPipelined(tx *redis.Tx, ctx context.Context, fn func(redis.Pipeliner) error) ([]redis.Cmder, error) {
	pipe := &zzPipe{}
	if err := fn(pipe); err != nil {
		return nil, err
	}
	vStep() // MULTI ... EXEC is one atomic server step
	ws := zzWatches[tx]
	for i, k := range ws.keys {
		zzSrv.find(k)
		if zzSrv.mods[k] != ws.mods[i] {
			return nil, redis.TxFailedErr
		}
	}
	for i := range pipe.keys {
		zzSrv.set(pipe.keys[i], pipe.vals[i], pipe.ttls[i])
	}
	return nil, nil
}

// --- protobuf of the 4-field record: an injective blob (lengths are single bytes; fields are short here) ---

func zzProtoMarshal(m proto.Message) ([]byte, error) {
	r, ok := m.(*golibskvspb.Record)
	if !ok {
		panic("zzProtoMarshal: unexpected message type")
	}
	var b []byte
	put := func(s []byte) {
		b = append(b, byte(len(s)))
		b = append(b, s...)
	}
	put([]byte(r.Key))
	put(r.Value)
	put([]byte(r.Version))
	if r.ExpiresAt == nil {
		b = append(b, 0)
	} else {
		b = append(b, 1)
		ns := uint64(r.ExpiresAt.Seconds)
		for i := 0; i < 8; i++ {
			b = append(b, byte(ns>>(8*uint(i))))
		}
	}
	return b, nil
}

func zzProtoUnmarshal(b []byte, m proto.Message) error {
	r, ok := m.(*golibskvspb.Record)
	if !ok {
		panic("zzProtoUnmarshal: unexpected message type")
	}
	pos := 0
	get := func() []byte {
		n := int(b[pos])
		s := b[pos+1 : pos+1+n]
		pos += 1 + n
		return s
	}
	r.Key = string(get())
	if v := get(); len(v) > 0 {
		r.Value = append([]byte(nil), v...)
	}
	r.Version = string(get())
	if b[pos] == 1 {
		ns := uint64(0)
		for i := 0; i < 8; i++ {
			ns |= uint64(b[pos+1+i]) << (8 * uint(i))
		}
		r.ExpiresAt = &timestamppb.Timestamp{Seconds: int64(ns)}
	}
	return nil
}

// timestamppb: the instant is kept as a nanosecond count in Seconds (the split into seconds/nanos divides by 1e9)
func zzTimestampNew(t time.Time) *timestamppb.Timestamp { return &timestamppb.Timestamp{Seconds: t.UnixNano()} }
func zzTimestampAsTime(ts *timestamppb.Timestamp) time.Time { return time.Unix(0, ts.Seconds) }

func zzNewID() string { return vToken("ver-") }

var zzKeyAlphabet = []string{"a", "b"}

func zzNewClient() *client {
	zzNewServer()
	return &client{rdb: new(redis.Client)}
}

// pre-state records are written into the server directly (through the real codec)
func zzSeed(key string, r zzRec, now time.Time) {
	rec := kvs.Record{Key: key, Value: r.val, Version: r.ver, ExpiresAt: r.exp}
	e := &zzEntry{val: string(rec2db(&rec))}
	if r.exp != nil {
		e.hasExp, e.exp = true, *r.exp
	}
	zzSrv.keys = append(zzSrv.keys, rKey(key))
	zzSrv.ents = append(zzSrv.ents, e)
}

// C03 / C06 (redis): one operation from an arbitrary pre-state, real redis.go method bodies over the server stub
func zzKVStepRedis() {
	c := zzNewClient()
	now := vNow()
	m := &zzKV{now: now}
	vers := &zzVersions{}
	minOff := int64(vParam("MINOFF"))
	expOf := func(name string) *time.Time {
		if vBool(name + "Nil") {
			return nil
		}
		if vParam("FARFUTURE") == 1 && vChoose(name+"Never", 2) == 1 {
			t := now.Add(time.Duration(1<<63 - 1)) // the "never expires" idiom: as far ahead as a Duration reaches
			return &t
		}
		off := vInt64(name + "Off")
		vAssume(off <= 1<<50 && off >= -(1<<50))
		if vParam("EXPIRED") == 1 && name == "preExp" {
			// stored records may already have expired; records are not WRITTEN already expired (Redis rejects/rounds TTL <= 0)
			vAssume(off >= minOff || off <= -minOff)
		} else {
			vAssume(off >= minOff)
		}
		t := now.Add(time.Duration(off))
		return &t
	}
	valOf := func(name string) []byte {
		switch vChoose(name+"Kind", 3) {
		case 0:
			return nil
		case 1:
			return []byte{}
		}
		return vBytes(name, 1)
	}
	keyOf := func(name string) string { return zzKeyAlphabet[vChoose(name, len(zzKeyAlphabet))] }
	K := vParam("K")
	for i := 0; i < K; i++ {
		key := zzKeyAlphabet[i]
		j := m.idx(key)
		if vBool("present") {
			ver := vToken("pre-")
			vers.add(ver)
			r := zzRec{true, valOf("preVal"), ver, expOf("preExp")}
			m.recs[j] = r
			zzSeed(key, r, now)
		}
	}
	vers.add("caller-version")
	vers.add("stale-version")
	zzKVOp(c, m, vers, keyOf, valOf, expOf)
	if vParam("LATER") == 1 {
		// a long time passes (beyond every expiry in play): what Get reports must follow the record's own ExpiresAt -
		// a record without expiry never disappears, one with an expiry is gone
		later := int64(1) << 52
		vAdvanceClock(later)
		m.now = now.Add(time.Duration(later))
		for i, key := range m.keys {
			r, err := c.Get(context.Background(), key)
			if m.live(i) {
				vAssert(err == nil, "a record without expiration disappeared as time went by")
				vAssert(r.Version == m.recs[i].ver && zzExpEq(r.ExpiresAt, m.recs[i].exp), "record changed as time went by")
			} else {
				vAssert(zzIsErr(err, errors.ErrNotExist), "a record is still served after its expiration passed")
			}
		}
	}
	vReach("later-done")
}

// C03 (redis): keys that differ only in leading slashes are distinct keys of the contract
func zzRedisSlash() {
	c := zzNewClient()
	ctx := context.Background()
	_, e1 := c.Create(ctx, kvs.Record{Key: "/s", Value: []byte{1}})
	vAssert(e1 == nil, "Create of a new key failed")
	known := vKnownIf("C03/redis-leading-slash-keys", true)
	_, e2 := c.Create(ctx, kvs.Record{Key: "s", Value: []byte{2}})
	vAssert(e2 == nil, "Create(\"s\") fails with ErrExist after Create(\"/s\"): keys differing only in leading slashes collide")
	// a pattern with a leading slash must only match keys that start with a slash
	it, e3 := c.ListKeys(ctx, "/x*")
	vAssert(e3 == nil, "ListKeys failed")
	n := 0
	for it.HasNext() {
		it.Next()
		n++
	}
	vAssert(n == 0, "ListKeys(\"/x*\") lists keys that do not start with a slash")
	if known {
		vKnownEnd()
	}
	vReach("op-done")
}

// C02 (redis): T concurrent clients, one operation each, interleaved at Redis-command granularity
func zzC02Redis() {
	c := zzNewClient()
	zzStrictCreateVersion = false
	key := []string{"a", "/a"}[vParam("SLASHKEY")]
	pre := vBool("prePresent")
	if pre {
		zzSeed(key, zzRec{true, []byte{1}, "pre-version", nil}, time.Time{})
	}
	zzC02Run(c, pre, key)
}

// C07 (redis): the polling WaitForVersionChange against the server stub. The poll timer is driven by the
// harness: time.NewTimer is replaced by a timer whose channel the environment thread feeds ("a poll period has
// passed"), which also lets the harness check every requested duration.
var zzPollTimers []chan time.Time

func zzNewPollTimer(d time.Duration) *time.Timer {
	vAssert(d > 0 && d <= 100*time.Millisecond, "poll timer duration outside (0, 100ms]")
	ch := make(chan time.Time, 1)
	zzPollTimers = append(zzPollTimers, ch)
	t := new(time.Timer)
	t.C = ch
	return t
}

func zzPollTimerStop(t *time.Timer) bool { return true }

// a poll period passes for every waiter that is parked on a timer
func zzTick() {
	// take the armed timers first: a send is a scheduling point, and a timer armed by a waiter that runs in
	// between belongs to the next period (clearing the list after the loop would lose it for ever)
	armed := zzPollTimers
	zzPollTimers = nil
	for _, ch := range armed {
		select {
		case ch <- time.Time{}:
		default:
		}
	}
}

func zzC07Redis() {
	c := zzNewClient()
	bg := context.Background()
	present := vBool("present")
	version := ""
	expiring := false
	if present {
		rec := kvs.Record{Key: "a", Value: []byte{1}}
		if vChoose("withExpiry", 2) == 1 {
			e := time.Now().Add(time.Hour)
			rec.ExpiresAt = &e
			expiring = true
		}
		r, err := c.Put(bg, rec)
		vAssert(err == nil, "Put failed")
		version = r.Version
	}
	type waiter struct {
		ver                                string
		ctx                                *zzCtx
		finished                           chan struct{}
		err                                error
		sawDifferent, sawAbsent, cancelled bool
		mayFault                           bool
	}
	zzGetFaults = 0
	W := vParam("W")
	ws := make([]*waiter, W)
	for i := range ws {
		w := &waiter{ctx: zzNewCtx(), finished: make(chan struct{})}
		if vChoose("deadline", 2) == 1 {
			// a context with a deadline shortly ahead that has NOT passed: only its Done/Err say when it ends
			w.ctx.deadline = time.Now().Add(time.Millisecond)
		}
		switch vChoose("wver", 2) {
		case 0:
			w.ver = version
		case 1:
			w.ver = "stale-version"
		}
		if !present {
			w.sawAbsent = true
		} else if version != w.ver {
			w.sawDifferent = true
		}
		ws[i] = w
		vSpawn("waiter", func() {
			w.err = c.WaitForVersionChange(w.ctx, "a", w.ver)
			close(w.finished)
		})
	}
	S := vParam("S")
	for step := 0; step < S; step++ {
		switch vChoose("op", 6+vParam("GETFAULT")) {
		case 6:
			// the next GET of some waiter is answered with a server error: that waiter may end with it - never with nil
			zzGetFaults = 1
			for _, w := range ws {
				w.mayFault = true
			}
		case 5:
			// two hours pass: a record written with a one-hour expiry is gone
			vAdvanceClock(int64(2 * time.Hour))
			if present && expiring {
				for _, w := range ws {
					w.sawAbsent = true
				}
				present = false
			}
		case 0:
			for _, w := range ws {
				w.sawDifferent = true
			}
			r, err := c.Put(bg, kvs.Record{Key: "a", Value: []byte{2}})
			vAssert(err == nil, "Put failed")
			present, version, expiring = true, r.Version, false
		case 1:
			if present {
				for _, w := range ws {
					w.sawAbsent = true
				}
			}
			c.Delete(bg, "a")
			present = false
		case 2:
			if !present {
				for _, w := range ws {
					w.sawDifferent = true
				}
			}
			if ver, err := c.Create(bg, kvs.Record{Key: "a", Value: []byte{3}}); err == nil {
				present, version, expiring = true, ver, false
			}
		case 3:
			w := ws[vChoose("which", W)]
			w.cancelled = true
			w.ctx.cancel()
		case 4:
			zzTick()
		}
		vYield()
	}
	vReach("script-done")
	for _, w := range ws {
		if w.sawAbsent || w.sawDifferent || w.cancelled {
			// the waiter must return within a few poll periods
			done := false
			for i := 0; i < 4 && !done; i++ {
				vSettle()
				select {
				case <-w.finished:
					done = true
				default:
					zzTick()
				}
			}
			vAssert(done, "a waiter whose condition holds did not return within three poll periods")
		} else {
			vSettle()
			select {
			case <-w.finished:
				vAssert(w.mayFault, "a waiter returned although nothing it waits for happened")
			default:
			}
			w.cancelled = true
			w.ctx.cancel()
			<-w.finished
		}
		switch {
		case w.err == nil:
			vAssert(w.sawDifferent, "WaitForVersionChange returned nil although the key never existed with another version during the call")
		case zzIsErr(w.err, errors.ErrNotExist):
			vAssert(w.sawAbsent, "WaitForVersionChange returned ErrNotExist although the key was never absent during the call")
		case w.err == context.Canceled:
			vAssert(w.cancelled, "WaitForVersionChange returned the context's error although the context is not done")
		default:
			vAssert(w.mayFault && w.err == zzErrServer, "WaitForVersionChange returned an undocumented error")
		}
	}
	vReach("all-returned")
}

// C02/C03 (redis): a large PutMany batch of records without expiry (every size 1..NBIG): every record is stored
// under a fresh version (implementations that split the batch must not lose the tail)
func zzRedisBigBatch() {
	c := zzNewClient()
	ctx := context.Background()
	n := vConcrete(vRange("n", 1, vParam("NBIG")))
	recs := make([]kvs.Record, n)
	for i := range recs {
		recs[i] = kvs.Record{Key: "k" + string(rune('0'+i/100)) + string(rune('0'+(i/10)%10)) + string(rune('0'+i%10)), Value: []byte{byte(i)}, Version: "caller-version"}
	}
	vAssert(c.PutMany(ctx, recs) == nil, "PutMany failed")
	vReach("op-done")
	seen := map[string]bool{"caller-version": true, "": true}
	for i := range recs {
		r, err := c.Get(ctx, recs[i].Key)
		vAssert(err == nil, "a record of a PutMany batch was not stored")
		vAssert(len(r.Value) == 1 && r.Value[0] == byte(i), "a record of a PutMany batch was stored with another value")
		vAssert(!seen[r.Version], "PutMany stored a record without a fresh version")
		seen[r.Version] = true
	}
}
