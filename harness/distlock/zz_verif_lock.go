//go:build verif

package PKGNAME

import (
	"context"
	stderrors "errors"
	"sync"
	"time"

	"github.com/acquirecloud/golibs/container/iterable"
	"github.com/acquirecloud/golibs/errors"
	"github.com/acquirecloud/golibs/kvs"
	"github.com/acquirecloud/golibs/logging"
	"github.com/acquirecloud/golibs/timeout"
)

// ---------------------------------------------------------------------------------------------
// environment of the lock: contract storage, lease timers, contexts, logger

type zzLogger struct{}

func (zzLogger) Warnf(string, ...interface{})  {}
func (zzLogger) Infof(string, ...interface{})  {}
func (zzLogger) Debugf(string, ...interface{}) {}
func (zzLogger) Tracef(string, ...interface{}) {}
func (zzLogger) Errorf(string, ...interface{}) {}

func zzNewLogger(name string) logging.Logger { return zzLogger{} }

// zzCtx: cancellable context carrying the id of the attempt (ghost)
type zzCtx struct {
	done chan struct{}
	err  error
	id   int
}

func zzNewCtx(id int) *zzCtx                 { return &zzCtx{done: make(chan struct{}), id: id} }
func (c *zzCtx) Deadline() (time.Time, bool) { return time.Time{}, false }
func (c *zzCtx) Done() <-chan struct{}       { return c.done }
func (c *zzCtx) Err() error                  { return c.err }
func (c *zzCtx) Value(key any) any           { return nil }
func (c *zzCtx) cancel() {
	if c.err == nil {
		c.err = context.Canceled
		close(c.done)
	}
}

var zzTransient = stderrors.New("transient storage failure")

// zzStore is the storage contract the lock relies on (C02/C03/C06/C07), for the single lock key:
// atomic operations, fresh versions, an expired record is absent, WaitForVersionChange returns once the
// record is absent / has another version / the context is done. Every call is a scheduling point.
type zzStore struct {
	mu      sync.Mutex
	present bool
	key     string
	ver     string
	exp     time.Time
	changed chan struct{}
	// fault injection (C01): per call none / request lost / reply lost, at most maxFaults
	maxFaults, faults int
	// ghost state
	guard        string // version whose record is assumed not to expire (a live tenure renews in time)
	lastCreateBy map[int]string
	ownerDead    bool
	casCalls     int
	casApplied   int
	deletes      int
	renewFailAt  int // C05: the k-th CasByVersion is lost (0 = never)
	noExpiry     bool
}

func zzNewStore(maxFaults int) *zzStore {
	return &zzStore{changed: make(chan struct{}), maxFaults: maxFaults, lastCreateBy: map[int]string{}}
}

// fault: 0 none, 1 request lost, 2 reply lost
func (s *zzStore) fault() int {
	if s.faults >= s.maxFaults {
		return 0
	}
	f := vChoose("fault", 3)
	if f != 0 {
		s.faults++
	}
	return f
}

func (s *zzStore) bump() {
	close(s.changed)
	s.changed = make(chan struct{})
}

// lazy expiry; a guarded record (live tenure) is assumed to be renewed in time.
// CLOCK=1: expiry is decided against the symbolic clock. CLOCK=0: time is abstracted away - an unguarded
// record (orphan after a lost reply or a lost Delete) may lapse at any storage operation, by symbolic choice.
func (s *zzStore) expire() {
	if !s.present {
		return
	}
	if vParam("CLOCK") == 0 {
		return // time abstracted away: unguarded records are removed by a "lapse" thread (see unguard)
	}
	now := time.Now()
	if s.guard == s.ver && !s.ownerDead {
		vAssume(!s.exp.Before(now))
		return
	}
	if s.noExpiry {
		return
	}
	if s.exp.Before(now) {
		s.present = false
		s.bump()
	}
}

// unguard ends the no-expiry assumption for the current record. With the clock abstracted away an
// environment thread removes the record at some later point chosen by the scheduler (its lease lapses).
func (s *zzStore) unguard() {
	s.guard = ""
	if vParam("CLOCK") == 0 && s.present && !s.noExpiry {
		v := s.ver
		vSpawn("lapse", func() {
			s.mu.Lock()
			if s.present && s.ver == v && s.guard != v {
				s.present = false
				s.bump()
			}
			s.mu.Unlock()
		})
	}
}

func zzCtxID(ctx context.Context) int {
	if c, ok := ctx.(*zzCtx); ok {
		return c.id
	}
	return -1
}

func (s *zzStore) Create(ctx context.Context, r kvs.Record) (string, error) {
	s.mu.Lock()
	defer s.mu.Unlock()
	if ctx.Err() != nil {
		return "", ctx.Err()
	}
	f := s.fault()
	if f == 1 {
		return "", zzTransient
	}
	s.expire()
	if s.present {
		if f == 2 {
			return "", zzTransient
		}
		return s.ver, errors.ErrExist
	}
	vAssert(r.ExpiresAt != nil, "lock record created without an expiration")
	s.present, s.key, s.ver, s.exp = true, r.Key, vToken("v"), *r.ExpiresAt
	s.guard = s.ver
	s.lastCreateBy[zzCtxID(ctx)] = s.ver
	s.bump()
	if f == 2 {
		return "", zzTransient
	}
	return s.ver, nil
}

func (s *zzStore) CasByVersion(ctx context.Context, r kvs.Record) (kvs.Record, error) {
	s.mu.Lock()
	defer s.mu.Unlock()
	s.casCalls++
	if s.renewFailAt != 0 && s.casCalls == s.renewFailAt {
		return kvs.Record{}, zzTransient
	}
	f := s.fault()
	if f == 1 {
		return kvs.Record{}, zzTransient
	}
	s.expire()
	if !s.present {
		return kvs.Record{}, errors.ErrNotExist
	}
	if s.ver != r.Version {
		return kvs.Record{}, errors.ErrConflict
	}
	vAssert(r.ExpiresAt != nil, "lock record renewed without an expiration")
	old := s.ver
	s.ver, s.exp = vToken("v"), *r.ExpiresAt
	if s.guard == old {
		s.guard = s.ver
	}
	s.casApplied++
	s.bump()
	if f == 2 {
		return kvs.Record{}, zzTransient
	}
	r.Version = s.ver
	return r, nil
}

func (s *zzStore) Delete(ctx context.Context, key string) error {
	s.mu.Lock()
	defer s.mu.Unlock()
	f := s.fault()
	if f == 1 {
		// the Delete of an Unlock is lost: the tenure is over, the record stays behind and may lapse
		if s.present && s.guard == s.ver {
			s.unguard()
		}
		return zzTransient
	}
	s.expire()
	if !s.present {
		return errors.ErrNotExist
	}
	s.present = false
	s.deletes++
	s.bump()
	if f == 2 {
		return zzTransient
	}
	return nil
}

func (s *zzStore) Get(ctx context.Context, key string) (kvs.Record, error) {
	s.mu.Lock()
	defer s.mu.Unlock()
	s.expire()
	if !s.present {
		return kvs.Record{}, errors.ErrNotExist
	}
	e := s.exp
	return kvs.Record{Key: s.key, Version: s.ver, ExpiresAt: &e}, nil
}

func (s *zzStore) WaitForVersionChange(ctx context.Context, key, ver string) error {
	for {
		s.mu.Lock()
		if s.fault() != 0 {
			s.mu.Unlock()
			return zzTransient
		}
		s.expire()
		if !s.present {
			s.mu.Unlock()
			return errors.ErrNotExist
		}
		if s.ver != ver {
			s.mu.Unlock()
			return nil
		}
		ch := s.changed
		var expC <-chan time.Time
		if vParam("CLOCK") == 1 && (s.guard != s.ver || s.ownerDead) {
			// an unguarded record lapses by itself: wake up when it does
			expC = time.NewTimer(s.exp.Sub(time.Now()) + 1).C
		}
		s.mu.Unlock()
		select {
		case <-ch:
		case <-expC:
		case <-ctx.Done():
			return ctx.Err()
		}
	}
}

func (s *zzStore) Put(ctx context.Context, r kvs.Record) (kvs.Record, error) {
	panic("zzStore: Put is not used by the lock")
}
func (s *zzStore) PutMany(ctx context.Context, rs []kvs.Record) error {
	panic("zzStore: PutMany is not used by the lock")
}
func (s *zzStore) GetMany(ctx context.Context, keys ...string) ([]*kvs.Record, error) {
	panic("zzStore: GetMany is not used by the lock")
}
func (s *zzStore) ListKeys(ctx context.Context, p string) (iterable.Iterator[string], error) {
	panic("zzStore: ListKeys is not used by the lock")
}

var _ kvs.Storage = (*zzStore)(nil)

// lease timers: the contract C12/C13 establish for timeout.Call - the function starts at most once, at an
// instant >= due, never after a Cancel that came first.
type zzFuture struct {
	armed bool
}

func (f *zzFuture) Cancel() { f.armed = false }

var zzTimerStarts int
var zzTimersArmed int
var zzTimersDead bool

func zzTimeoutCall(f func(), d time.Duration) timeout.Future {
	fu := &zzFuture{armed: f != nil}
	if f == nil {
		return fu
	}
	zzTimersArmed++
	if zzTimersArmed > vParam("TIMERS") {
		// bound of the exploration: at most TIMERS lease timers are ever armed; later ones never fire
		return fu
	}
	var tmC <-chan time.Time
	if vParam("CLOCK") == 1 {
		tmC = time.NewTimer(d).C
	}
	vSpawn("lease-timer", func() {
		if tmC != nil {
			<-tmC // with the clock abstracted away the timer may fire at any point the scheduler chooses
		}
		// hypothesis (DESIGN, observation 1): no goroutine is stalled for >= TTL/2 between timeout.Call and
		// future.Store - a locker in the held state has stored its first future by the time a renewal fires
		if zzW != nil {
			for _, l := range zzW.lockers {
				vAssume(l.lckCntr != 1 || l.future.Load() != nil)
			}
		}
		if fu.armed && !zzTimersDead {
			fu.armed = false
			zzTimerStarts++
			f()
		}
	})
	return fu
}

// ---------------------------------------------------------------------------------------------
// C01 / C04: programs of lockers under every schedule

type zzWorld struct {
	st      *zzStore
	provs   []*kvsLockProvider
	lockers []*kvsLock
	holders int
	acq     []int // acquisitions per thread
	nextCtx int
	shutdownDone bool
}

var zzW *zzWorld

func zzNewWorld(nProv, nLock, maxFaults int) *zzWorld {
	w := &zzWorld{st: zzNewStore(maxFaults)}
	zzW = w
	for i := 0; i < nProv; i++ {
		p := New("/locks/")
		p.Storage = w.st
		if vParam("CLOCK") == 1 {
			ttl := vInt64("leaseTTL")
			vAssume(ttl >= 2 && ttl <= 1<<40)
			p.leaseTTL = time.Duration(ttl)
		}
		w.provs = append(w.provs, p)
	}
	for i := 0; i < nLock; i++ {
		w.lockers = append(w.lockers, w.provs[i%nProv].NewLocker("L").(*kvsLock))
	}
	return w
}

func (w *zzWorld) acquired(t int) {
	w.holders++
	vAssert(w.holders == 1, "two callers hold the lock at the same time")
	w.acq[t]++
}

// one acquire attempt of thread t on locker l; returns whether the caller now holds the lock
func (w *zzWorld) attempt(t int, l *kvsLock, kinds int) bool {
	w.nextCtx++
	ctx := zzNewCtx(w.nextCtx)
	afterShutdown := w.shutdownDone
	ok := false
	kind := vChoose("acquire", kinds)
	if kinds == 3 && kind == 2 {
		kind = 3 // quick tier: LockWithCtx / TryLock / LockWithCtx cancelled at any point
	}
	switch kind {
	case 0: // LockWithCtx, never cancelled
		err := l.LockWithCtx(ctx)
		ok = err == nil
		if !ok {
			vAssert(l.lckCntr == 0 || w.holders > 0 || true, "")
		}
	case 1: // TryLock
		ok = l.TryLock(ctx)
	case 2: // LockWithCtx, context cancelled before the call
		ctx.cancel()
		err := l.LockWithCtx(ctx)
		vAssert(err == context.Canceled, "LockWithCtx with a done context did not return the context's error")
	case 3: // LockWithCtx, context cancelled at any point during the call
		vSpawn("canceller", func() { ctx.cancel() })
		err := l.LockWithCtx(ctx)
		ok = err == nil
		if !ok && w.st.maxFaults == 0 {
			vAssert(err == context.Canceled, "LockWithCtx returned something else than nil or the context's error")
		}
	case 4: // Lock
		l.Lock()
		ok = true
	}
	if ok {
		vAssert(!afterShutdown, "an attempt that started after Shutdown returned acquired the lock")
		w.acquired(t)
	} else if v, has := w.st.lastCreateBy[ctx.id]; has && w.st.guard == v {
		// the attempt failed from the caller's view although its Create was applied (reply lost): orphan record
		w.st.unguard()
	}
	return ok
}

func (w *zzWorld) release(l *kvsLock) {
	w.holders--
	l.Unlock()
}

// C01: mutual exclusion. N threads x P steps over {acquire (4-5 kinds), Unlock}; faults on storage calls.
func zzC01Mutex() {
	N, P := vParam("N"), vParam("P")
	nLock := vParam("LOCKERS")
	w := zzNewWorld(vParam("PROVS"), nLock, vParam("FAULTS"))
	w.acq = make([]int, N)
	kinds := vParam("KINDS")
	if vParam("FAULTS") > 0 && kinds > 4 {
		kinds = 4 // Lock() panics by design on a storage error
	}
	fin := make([]chan struct{}, N)
	for t := 0; t < N; t++ {
		t := t
		fin[t] = make(chan struct{})
		l := w.lockers[t%nLock]
		vSpawn("locker", func() {
			holding := false
			for s := 0; s < P; s++ {
				if !holding {
					holding = w.attempt(t, l, kinds)
				} else {
					w.release(l)
					holding = false
				}
			}
			vReach("program-done")
			close(fin[t])
		})
	}
	for t := 0; t < N; t++ {
		<-fin[t]
	}
	vReach("all-done")
}
