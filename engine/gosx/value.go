package gosx

import (
	"fmt"
	"go/types"
	"strings"

	"golang.org/x/tools/go/ssa"
)

// Value is one of:
//   *Term      integers (bit-vectors) and booleans
//   Ptr        pointers
//   *StructVal, *ArrayVal  aggregate values (copied on load/store)
//   Slice, Str
//   Iface
//   *Closure, *ssa.Builtin
//   *MapObj, *ChanObj
//   Tuple
//   FloatVal
type Value interface{}

type FloatVal struct{ F float64 }

type Cell struct {
	Typ   types.Type
	V     Value   // for non-aggregate cells
	Sub   []*Cell // struct fields / array elements
	Guard *Cell   // mutex cell guarding this cell (lock-set check), or nil
	ID    int
	Label string
}

// Ptr is a pointer. C==nil && Alts==nil is the nil pointer. A symbolic-index pointer has Alts and Idx.
type Ptr struct {
	C    *Cell
	Alts []*Cell
	Idx  *Term
}

func (p Ptr) IsNil() bool { return p.C == nil && p.Alts == nil }

type StructVal struct{ F []Value }
type ArrayVal struct{ E []Value }

type Slice struct {
	Arr  *Cell // array cell (Sub = elements); nil for a nil slice
	Off  int
	Len  int
	Cap  int
	Elem types.Type
}

// Str is a string: either a concrete Go string (Arr==nil) or a window over byte cells.
type Str struct {
	K   string
	Arr *Cell
	Off int
	Len int
}

func (s Str) N() int {
	if s.Arr == nil {
		return len(s.K)
	}
	return s.Len
}

type Iface struct {
	T types.Type // dynamic type; nil for a nil interface
	V Value
}

type Closure struct {
	Fn   *ssa.Function
	Free []Value
	// Native is set for engine-provided function values (e.g. bound intrinsic)
	Native func(x *Exec, args []Value) Value
}

type Tuple []Value

type mapEntry struct {
	K       Value
	V       Value
	Deleted bool
}

type MapObj struct {
	KT, VT  types.Type
	Entries []*mapEntry
	Live    int
	Guard   *Cell
	ID      int
}

type ChanObj struct {
	Cap    int
	Buf    []Value
	Closed bool
	Elem   types.Type
	ID     int
	Label  string
	// unbuffered rendezvous slot
	Slot     Value
	SlotFull bool
	SlotFrom *Thread
}

type mapIter struct {
	m   *MapObj
	pos int
	rev bool
	// string iteration
	isStr bool
	s     Str
}

func intWidth(b *types.Basic) (w int, signed bool, ok bool) {
	switch b.Kind() {
	case types.Int8:
		return 8, true, true
	case types.Int16:
		return 16, true, true
	case types.Int32, types.UntypedRune:
		return 32, true, true
	case types.Int64, types.Int, types.UntypedInt:
		return 64, true, true
	case types.Uint8:
		return 8, false, true
	case types.Uint16:
		return 16, false, true
	case types.Uint32:
		return 32, false, true
	case types.Uint64, types.Uint, types.Uintptr:
		return 64, false, true
	}
	return 0, false, false
}

func isSigned(t types.Type) bool {
	if b, ok := t.Underlying().(*types.Basic); ok {
		_, s, _ := intWidth(b)
		return s
	}
	return false
}

func typeWidth(t types.Type) int {
	if b, ok := t.Underlying().(*types.Basic); ok {
		if b.Kind() == types.Bool || b.Kind() == types.UntypedBool {
			return 0
		}
		w, _, ok := intWidth(b)
		if ok {
			return w
		}
	}
	return -1
}

func (x *Exec) zero(t types.Type) Value {
	switch u := t.Underlying().(type) {
	case *types.Basic:
		switch {
		case u.Kind() == types.Bool || u.Kind() == types.UntypedBool:
			return x.F.False
		case u.Info()&types.IsInteger != 0:
			w, _, _ := intWidth(u)
			return x.F.BV(w, 0)
		case u.Info()&types.IsString != 0:
			return Str{}
		case u.Info()&types.IsFloat != 0:
			return FloatVal{0}
		case u.Kind() == types.UnsafePointer:
			return Ptr{}
		case u.Kind() == types.UntypedNil:
			return Ptr{}
		}
	case *types.Pointer:
		return Ptr{}
	case *types.Struct:
		sv := &StructVal{F: make([]Value, u.NumFields())}
		for i := range sv.F {
			sv.F[i] = x.zero(u.Field(i).Type())
		}
		return sv
	case *types.Array:
		av := &ArrayVal{E: make([]Value, int(u.Len()))}
		for i := range av.E {
			av.E[i] = x.zero(u.Elem())
		}
		return av
	case *types.Slice:
		return Slice{Elem: u.Elem()}
	case *types.Map:
		return (*MapObj)(nil)
	case *types.Chan:
		return (*ChanObj)(nil)
	case *types.Interface:
		return Iface{}
	case *types.Signature:
		return (*Closure)(nil)
	case *types.Tuple:
		tv := make(Tuple, u.Len())
		for i := range tv {
			tv[i] = x.zero(u.At(i).Type())
		}
		return tv
	}
	x.unsupported("zero value of type " + t.String())
	return nil
}

func (x *Exec) newCell(t types.Type) *Cell {
	x.cellID++
	c := &Cell{Typ: t, ID: x.cellID}
	switch u := t.Underlying().(type) {
	case *types.Struct:
		c.Sub = make([]*Cell, u.NumFields())
		for i := range c.Sub {
			c.Sub[i] = x.newCell(u.Field(i).Type())
		}
	case *types.Array:
		n := int(u.Len())
		c.Sub = make([]*Cell, n)
		for i := range c.Sub {
			c.Sub[i] = x.newCell(u.Elem())
		}
	default:
		c.V = x.zero(t)
	}
	return c
}

// newArrayCell creates an array cell of n elements of type elem.
func (x *Exec) newArrayCell(elem types.Type, n int) *Cell {
	x.cellID++
	c := &Cell{Typ: types.NewArray(elem, int64(n)), ID: x.cellID}
	c.Sub = make([]*Cell, n)
	// fast path for scalar elements
	if _, ok := elem.Underlying().(*types.Basic); ok {
		z := x.zero(elem)
		for i := range c.Sub {
			x.cellID++
			c.Sub[i] = &Cell{Typ: elem, V: z, ID: x.cellID}
		}
		return c
	}
	for i := range c.Sub {
		c.Sub[i] = x.newCell(elem)
	}
	return c
}

func isAggregate(t types.Type) bool {
	switch t.Underlying().(type) {
	case *types.Struct, *types.Array:
		return true
	}
	return false
}

func (x *Exec) loadCell(c *Cell) Value {
	if c.Guard != nil {
		x.checkGuard(c.Guard, "read")
	}
	if c.Sub == nil {
		if isAggregate(c.Typ) {
			// zero-length array or empty struct
			return x.zero(c.Typ)
		}
		return c.V
	}
	switch c.Typ.Underlying().(type) {
	case *types.Struct:
		sv := &StructVal{F: make([]Value, len(c.Sub))}
		for i, s := range c.Sub {
			sv.F[i] = x.loadCell(s)
		}
		return sv
	default:
		av := &ArrayVal{E: make([]Value, len(c.Sub))}
		for i, s := range c.Sub {
			av.E[i] = x.loadCell(s)
		}
		return av
	}
}

func (x *Exec) storeCell(c *Cell, v Value) {
	if c.Guard != nil {
		x.checkGuard(c.Guard, "write")
	}
	if c.Sub == nil {
		if isAggregate(c.Typ) {
			return
		}
		c.V = v
		return
	}
	switch a := v.(type) {
	case *StructVal:
		for i, s := range c.Sub {
			x.storeCell(s, a.F[i])
		}
	case *ArrayVal:
		for i, s := range c.Sub {
			x.storeCell(s, a.E[i])
		}
	default:
		panic(fmt.Sprintf("storeCell: aggregate cell %s gets %T", c.Typ, v))
	}
}

// guarded store: c = ite(g, v, c) for scalar cells
func (x *Exec) storeCellIf(g *Term, c *Cell, v Value) {
	if g.IsTrue() {
		x.storeCell(c, v)
		return
	}
	if g.IsFalse() {
		return
	}
	if c.Sub != nil {
		switch a := v.(type) {
		case *StructVal:
			for i, s := range c.Sub {
				x.storeCellIf(g, s, a.F[i])
			}
		case *ArrayVal:
			for i, s := range c.Sub {
				x.storeCellIf(g, s, a.E[i])
			}
		}
		return
	}
	old := x.loadCell(c)
	x.storeCell(c, x.iteValue(g, v, old))
}

// iteValue merges two values under a condition; only scalar-like values can be merged.
func (x *Exec) iteValue(g *Term, a, b Value) Value {
	switch av := a.(type) {
	case *Term:
		return x.F.Ite(g, av, b.(*Term))
	case *StructVal:
		bv := b.(*StructVal)
		r := &StructVal{F: make([]Value, len(av.F))}
		for i := range av.F {
			r.F[i] = x.iteValue(g, av.F[i], bv.F[i])
		}
		return r
	case *ArrayVal:
		bv := b.(*ArrayVal)
		r := &ArrayVal{E: make([]Value, len(av.E))}
		for i := range av.E {
			r.E[i] = x.iteValue(g, av.E[i], bv.E[i])
		}
		return r
	}
	if x.sameValue(a, b) {
		return a
	}
	x.unsupported(fmt.Sprintf("ite over non-scalar values %T", a))
	return nil
}

// sameValue is a cheap syntactic identity check.
func (x *Exec) sameValue(a, b Value) bool {
	t := x.valueEq(a, b)
	return t != nil && t.IsTrue()
}

func mergeable(t types.Type) bool {
	switch u := t.Underlying().(type) {
	case *types.Basic:
		return u.Info()&(types.IsInteger|types.IsBoolean) != 0
	case *types.Struct:
		for i := 0; i < u.NumFields(); i++ {
			if !mergeable(u.Field(i).Type()) {
				return false
			}
		}
		return true
	case *types.Array:
		return mergeable(u.Elem())
	}
	return false
}

// load through a pointer
func (x *Exec) load(p Ptr) Value {
	if p.C != nil {
		return x.loadCell(p.C)
	}
	if p.Alts == nil {
		x.goPanic("nil pointer dereference")
	}
	// ite chain over alternatives
	var res Value
	for i := len(p.Alts) - 1; i >= 0; i-- {
		v := x.loadCell(p.Alts[i])
		if res == nil {
			res = v
			continue
		}
		g := x.F.Eq(p.Idx, x.F.BV(p.Idx.W, uint64(i)))
		res = x.iteValue(g, v, res)
	}
	return res
}

func (x *Exec) store(p Ptr, v Value) {
	if p.C != nil {
		x.storeCell(p.C, v)
		return
	}
	if p.Alts == nil {
		x.goPanic("nil pointer dereference")
	}
	for i, c := range p.Alts {
		g := x.F.Eq(p.Idx, x.F.BV(p.Idx.W, uint64(i)))
		x.storeCellIf(g, c, v)
	}
}

// ---------------------------------------------------------------------
// strings

func (x *Exec) strBytes(s Str) []*Term {
	if s.Arr == nil {
		r := make([]*Term, len(s.K))
		for i := 0; i < len(s.K); i++ {
			r[i] = x.F.BV(8, uint64(s.K[i]))
		}
		return r
	}
	r := make([]*Term, s.Len)
	for i := 0; i < s.Len; i++ {
		r[i] = x.loadCell(s.Arr.Sub[s.Off+i]).(*Term)
	}
	return r
}

// strConcrete returns the Go string if every byte is constant.
func (x *Exec) strConcrete(s Str) (string, bool) {
	if s.Arr == nil {
		return s.K, true
	}
	var sb strings.Builder
	for i := 0; i < s.Len; i++ {
		t := s.Arr.Sub[s.Off+i].V.(*Term)
		if !t.IsConst() {
			return "", false
		}
		sb.WriteByte(byte(t.Val))
	}
	return sb.String(), true
}

// strDisplay renders a string for messages (symbolic bytes as '?').
func (x *Exec) strDisplay(s Str) string {
	if s.Arr == nil {
		return s.K
	}
	var sb strings.Builder
	for i := 0; i < s.Len; i++ {
		t := s.Arr.Sub[s.Off+i].V.(*Term)
		if t.IsConst() {
			sb.WriteByte(byte(t.Val))
		} else {
			sb.WriteByte('?')
		}
	}
	return sb.String()
}

func (x *Exec) strFromBytes(bs []*Term) Str {
	all := true
	for _, b := range bs {
		if !b.IsConst() {
			all = false
			break
		}
	}
	if all {
		buf := make([]byte, len(bs))
		for i, b := range bs {
			buf[i] = byte(b.Val)
		}
		return Str{K: string(buf)}
	}
	arr := x.newArrayCell(types.Typ[types.Uint8], len(bs))
	for i, b := range bs {
		arr.Sub[i].V = b
	}
	return Str{Arr: arr, Off: 0, Len: len(bs)}
}

func (x *Exec) strEq(a, b Str) *Term {
	if a.N() != b.N() {
		return x.F.False
	}
	if a.Arr == nil && b.Arr == nil {
		return x.F.Bool(a.K == b.K)
	}
	if a.Arr != nil && a.Arr == b.Arr && a.Off == b.Off {
		return x.F.True
	}
	ab, bb := x.strBytes(a), x.strBytes(b)
	r := x.F.True
	for i := range ab {
		r = x.F.And(r, x.F.Eq(ab[i], bb[i]))
		if r.IsFalse() {
			return r
		}
	}
	return r
}

// strLess returns a < b (lexicographic, bytewise)
func (x *Exec) strLess(a, b Str) *Term {
	ab, bb := x.strBytes(a), x.strBytes(b)
	n := len(ab)
	if len(bb) < n {
		n = len(bb)
	}
	// build from the end
	res := x.F.Bool(len(ab) < len(bb))
	for i := n - 1; i >= 0; i-- {
		lt := x.F.Cmp(OpUlt, ab[i], bb[i])
		eq := x.F.Eq(ab[i], bb[i])
		res = x.F.Or(lt, x.F.And(eq, res))
	}
	return res
}

// ---------------------------------------------------------------------
// equality of values (== in Go); returns a Bool term

func (x *Exec) valueEq(a, b Value) *Term {
	switch av := a.(type) {
	case *Term:
		bv, ok := b.(*Term)
		if !ok {
			return x.F.False
		}
		if av.W != bv.W {
			return x.F.False
		}
		return x.F.Eq(av, bv)
	case Str:
		bv, ok := b.(Str)
		if !ok {
			return x.F.False
		}
		return x.strEq(av, bv)
	case Ptr:
		bv, ok := b.(Ptr)
		if !ok {
			return x.F.False
		}
		if av.Alts != nil || bv.Alts != nil {
			x.unsupported("comparison of symbolic-index pointers")
		}
		return x.F.Bool(av.C == bv.C)
	case Iface:
		bv, ok := b.(Iface)
		if !ok {
			return x.F.False
		}
		if av.T == nil || bv.T == nil {
			return x.F.Bool(av.T == nil && bv.T == nil)
		}
		if !types.Identical(av.T, bv.T) {
			return x.F.False
		}
		return x.valueEq(av.V, bv.V)
	case *StructVal:
		bv, ok := b.(*StructVal)
		if !ok || len(av.F) != len(bv.F) {
			return x.F.False
		}
		r := x.F.True
		for i := range av.F {
			r = x.F.And(r, x.valueEq(av.F[i], bv.F[i]))
		}
		return r
	case *ArrayVal:
		bv, ok := b.(*ArrayVal)
		if !ok || len(av.E) != len(bv.E) {
			return x.F.False
		}
		r := x.F.True
		for i := range av.E {
			r = x.F.And(r, x.valueEq(av.E[i], bv.E[i]))
		}
		return r
	case *ChanObj:
		bv, _ := b.(*ChanObj)
		return x.F.Bool(av == bv)
	case *MapObj:
		bv, _ := b.(*MapObj)
		return x.F.Bool(av == bv)
	case *Closure:
		bv, _ := b.(*Closure)
		return x.F.Bool(av == bv)
	case Slice:
		bv, ok := b.(Slice)
		if !ok {
			return x.F.False
		}
		// only nil comparison is legal in Go
		return x.F.Bool(av.Arr == nil && bv.Arr == nil)
	case FloatVal:
		bv, _ := b.(FloatVal)
		return x.F.Bool(av.F == bv.F)
	case nil:
		return x.F.Bool(b == nil)
	}
	x.unsupported(fmt.Sprintf("equality on %T", a))
	return nil
}

// describe renders a value for samples and messages.
func (x *Exec) describe(v Value) string {
	switch a := v.(type) {
	case *Term:
		return a.String()
	case Str:
		return fmt.Sprintf("%q", x.strDisplay(a))
	case Ptr:
		if a.IsNil() {
			return "nil"
		}
		if a.C != nil {
			return fmt.Sprintf("&c%d", a.C.ID)
		}
		return "&sym"
	case Iface:
		if a.T == nil {
			return "nil"
		}
		return fmt.Sprintf("%s(%s)", a.T.String(), x.describe(a.V))
	case *StructVal:
		parts := make([]string, len(a.F))
		for i, f := range a.F {
			parts[i] = x.describe(f)
		}
		return "{" + strings.Join(parts, ",") + "}"
	case Slice:
		return fmt.Sprintf("slice[len=%d]", a.Len)
	case Tuple:
		parts := make([]string, len(a))
		for i, f := range a {
			parts[i] = x.describe(f)
		}
		return "(" + strings.Join(parts, ",") + ")"
	}
	return fmt.Sprintf("%T", v)
}
