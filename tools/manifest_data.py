HOOK_COMMITS = []

TECH = "bounded symbolic execution of the go/ssa form of the real functions; every path obligation (pc and not assertion; every implicit panic) decided by z3 over bit-vectors; counterexamples replayed natively"

CHECKS = {
 "C16": {
  "text": "Bounded symbolic model checking: UnmarshalBytes/String/Uint/Byte/Uint16/32/64 are executed symbolically from their SSA with the input length (0..12 quick, 0..16 thorough; inputs are windows into a longer backing array, len < cap) and every input byte as solver variables; z3 shows on every path that no bounds/slice panic is reachable, that consumed lies in [1,len] on success and is 0 on error, and that the result is the decoded sub-range (aliasing the input iff newBuf is false; with newBuf=true not even an empty result can reach the input's backing array). Holds for every byte string within the length bound, including all 64-bit length prefixes.",
  "note": "Trusted: the gosx SSA-to-SMT translation (validated per run by executing solver models of passing paths natively), z3; fmt.Errorf and the two unsafe cast helpers are engine intrinsics. Inputs longer than the bound are outside the claim.",
  "technique": TECH,
 },
 "C15": {
  "text": "Bounded symbolic model checking of the codec: Marshal*/Unmarshal*/Writable*Size and ObjectsWriter are executed from their SSA with the value (all 2^64 varints, all fixed-width values), the destination length (0..size+1, arbitrary prior content) and byte-string contents as solver variables; z3 shows round trip, exact consumed/written counts, size prediction, error iff buffer shorter than the size, writer bytes == Marshal bytes, three-item concatenations and independence of newBuf=true results, empty ones included (no shared backing array reachable through the result's capacity). Byte strings at lengths 0..4, 126..129 (quick) and 16382..16385 (thorough).",
  "note": "Trusted: gosx translation (self-checked natively on solver models every run), z3; fmt.Errorf and the unsafe cast helpers are intrinsics; the io.Writer is a harness sink that never fails. Byte strings longer than 16385 bytes are outside the claim.",
  "technique": TECH,
 },
 "C14": {
  "text": "Bounded symbolic model checking with an inductive step: for every capacity 0..4 (quick) / 0..8 (thorough) the ring buffer is put into an arbitrary representation state (every read/write index pair, symbolic contents, zero outside the live window), one operation with symbolic arguments (Skip/At unconstrained 64-bit) is executed from the real SSA and z3 shows the result and post-state equal the FIFO model's, the invariant (incl. zeroed consumed slots) is re-established and At panics exactly out of range - covering histories of any length for those capacities; plus API histories from the constructor and SliceFill for all lengths 0..130.",
  "note": "Trusted: gosx translation (self-checked natively), z3; instantiation ringBuffer[int]; fmt intrinsics. Larger capacities and NewRingBuffer(MaxUint) are outside the claim.",
  "technique": TECH + "; inductive step from a symbolic invariant state",
 },
 "C17": {
  "text": "Bounded symbolic model checking in four groups: (1) constructor validation for every 64-bit block size rejected by GetBlocksInSegment (must return ErrInvalid, no panic) and every accepted size up to 1 (quick) / 3 (thorough) pages with symbolic buffer size; (2) index arithmetic of Block/getBlockIdxInHdr for the power-of-two block sizes 1..4096, 1..65536 segments and all index pairs: ranges disjoint, inside their segment, outside headers, header bits injective (z3 with cvc5 --solve-bv-as-int=sum as fallback for the division-heavy obligations); (3) inductive step on the real in-memory buffer with all bytes symbolic and any free-hint satisfying the invariant: ArrangeBlock/FreeBlock/Block change exactly one header bit or nothing, ErrExhausted iff nothing free, Available tracks, lock-set check on header bytes/freeIdx; (4) reopening arbitrary bytes reproduces the allocated set.",
  "note": "Trusted: gosx translation (self-checked natively), z3/cvc5; os.Getpagesize()=4096; Buffer contract stub in groups 1-2; sync.Mutex/atomic intrinsics. Bitmap reasoning only for block sizes <= 4 (quick) / 8 (thorough) and <= 2 / 3 segments; the memory-mapped backend and real concurrency beyond the lock-set argument are outside the claim.",
  "technique": TECH + "; inductive step from a symbolic invariant state; lock-set check",
 },
 "C18": {
  "text": "Bounded symbolic model checking: Mixer[int] over the real WrapIntSlice iterators, two inputs of 0..2 (quick) / 0..3 (thorough) unconstrained 64-bit elements, ANY selector (each answer a fresh solver boolean, arguments logged) and every script of 6 / 8 calls over {HasNext, Next, Reset}; z3 shows every (value, ok) equals a two-pointer reference merge consuming the same decisions, the selector is consulted exactly when both heads are present and undecided with exactly the heads as arguments, HasNext is idempotent and agrees with Next, Reset restarts; plus sorted inputs under <= merge sorted.",
  "note": "Trusted: gosx translation (self-checked natively), z3. Longer inputs/scripts and other input iterator types are outside the claim.",
  "technique": TECH + "; API-bounded symbolic history against a reference model",
 },
 "C10": {
  "text": "Bounded symbolic model checking: every history of up to 6 (quick) / 7 (thorough) operations over {Add, Remove, NewIterator, HasNext, Next, Close} on Map[int,int] with unconstrained 64-bit keys/values and up to 2 / 3 open iterators is executed on the real SSA against a reference model (sequence-numbered entries, iterator = position); z3 decides key equalities on every path; no panic, Len/First/Get after every step, every Next is the first live entry at or after the position, a final drain yields exactly the live entries in order; a second entry lets sync.Pool return any pooled node.",
  "note": "Trusted: gosx translation (self-checked natively), z3; sync.Pool modelled (real single-P order, or adversarial). Longer histories / more iterators / concurrency outside the claim.",
  "technique": TECH + "; API-bounded symbolic history against a reference model",
 },
 "C11": {
  "text": "Bounded symbolic model checking: (a) the C10 map histories ending with every iterator closed: linked nodes == Len()+1, no reference count left, list well formed; (b) LRU inductive step: from any cache state satisfying the retention invariant (capacity 1..3 quick / 1..5 thorough, 0..cap entries, symbolic keys) one GetOrCreate/Remove/Clear re-establishes it - so retention stays bounded over histories of any length for those capacities; (c) API histories of cache calls ending in the retention check.",
  "note": "Trusted: gosx translation (self-checked natively), z3; retention observed by walking the internal list through an overlay accessor; sync.Pool contents not counted. Capacities above the bound outside the claim.",
  "technique": TECH + "; inductive step from a symbolic invariant state",
 },
 "C08": {
  "text": "Bounded symbolic model checking: Cache (identity mapping), ECache (pk&3 mapping) and ExpirableCache (symbolic expiry instants vs symbolic clock) with capacity 1..3 (quick) / 1..4 (thorough) are driven by every sequence of up to 5 / 7 calls over {GetOrCreate, Remove, Clear} with unconstrained 64-bit keys and a create function that fails by a fresh solver boolean; z3 shows returned values/errors/counts, create calls (iff miss, once), delete-callback log (exactly once per departing entry, creator's key, right value) and the walked recency order equal a reference LRU.",
  "note": "Trusted: gosx translation (self-checked natively for the two non-clock entries), z3; time intrinsics; ExpirableCache assumes items are not created already expired. Longer sequences / larger capacities outside the claim.",
  "technique": TECH + "; API-bounded symbolic history against a reference model",
 },
 "C19": {
  "text": "Bounded symbolic model checking over a small finite space: Is/GRPCWrap/GRPCStatusCode/FromGRPCError/FromGRPCErrorMsg/EmbedObject/ExtractObject are executed from their SSA with the two tables built by the real package initialiser; class (all with a code) x other class x wrap depth 0..4 (single and double %w) x embedded object x an earlier failed embedding of an unmarshalable value, and all 17 codes, are case-split by the engine; map iteration in insertion and reverse order. The grpc status package and encoding/json are contract stubs, and every sampled path is re-run natively against the REAL grpc/json packages (agreement required).",
  "note": "Trusted: gosx translation, the status/json stubs (validated natively per run). The solver's contribution is modest here (the space is finite and small); arbitrary message texts are outside the claim.",
  "technique": TECH + "; contract stubs validated natively",
 },
 "C03": {
  "text": "Bounded symbolic model checking, inductive step on the in-memory backend: the service's two maps are put into an arbitrary state over 2 (quick) / 3 (thorough) keys (absent / present with nil, empty or symbolic 1-byte value, version token, no or future expiry), one operation of Create/Get/GetMany/Put/PutMany/CasByVersion/Delete/ListKeys with symbolic arguments (repeated keys, current/empty/stale versions, done context) runs on the real SSA and z3 shows results and post-state equal the documented contract's reference model, with every written version new. Redis backend: the real redis.go method bodies (key prefixing, record codec, TTL arithmetic, checkErr, the WATCH closure, the MSET branch) run over a command-level server/go-redis stub written in the harness, same step harness and reference model; keys differing only in leading slashes collide (recorded known finding).",
  "note": "Trusted: gosx translation (self-checked natively on the 1-hour-offset entry), z3; NewID token stub, glob matcher stub, harness contexts, fixed clock during the step. Results on the Redis backend are relative to the command-level stub (SETNX/GET/MGET/SET PX/MSET/DEL/SCAN/WATCH-MULTI-EXEC, protobuf blob); larger alphabets and batches outside the claim.",
  "technique": TECH + "; inductive step from a symbolic pre-state against a reference model",
 },
 "C06": {
  "text": "Bounded symbolic model checking, inductive step on both backends (Redis over a command-level stub) with expiry instants anywhere relative to now (tie excluded): every operation kind is the first to touch a key after its expiry; z3 shows it is treated as deleted (Get/GetMany/CasByVersion/Delete report it missing, Create succeeds, ListKeys omits it) and that unexpired or never-expiring records are never dropped; a record written over an expiring one survives a waiter that wakes up late; a waiter on a record expiring MaxInt64 ns ahead parks (no expiry timer that fires at once).",
  "note": "Trusted: gosx translation (self-checked natively on the 1-hour-offset entry against the real clock), z3; stubs as C03. Redis: the same step over the server stub with server-side expiry and the real expiration() TTL arithmetic (instants at least 1 ms apart). Wall-clock effects and sub-millisecond TTL rounding outside the claim.",
  "technique": TECH + "; inductive step from a symbolic pre-state against a reference model",
 },
 "C02": {
  "text": "In-memory backend: (a) lock-set check on every path of every method from an arbitrary pre-state (all accesses to both maps inside the service mutex, mutex released at return) so each operation is one atomic step and concurrent histories are interleavings of the sequential steps decided in C03; (b) every version written is one never handed out before (solver, C03 step harness); (c) bounded symbolic scheduling of T=2 (quick) / 3 (thorough) real goroutines, one operation each of {Create, Put, CasByVersion current/stale, Delete, Get} on one key: single creator, at most one CAS winner, documented loser errors, distinct versions, and some sequential order explains all results and the final state. Redis backend: the same client programs over the command-level stub, interleaved at Redis-command granularity (WATCH, GET and MULTI/EXEC of CasByVersion are separate atomic server steps), all interleavings for T=2.",
  "note": "Trusted: gosx translation and scheduler (switches before every mutex/channel operation), z3; NewID token stub (ULID uniqueness contract). Redis results are relative to the command-level stub; more threads/ops outside the claim.",
  "technique": TECH + "; bounded symbolic scheduling of goroutines + lock-set check",
 },
 "C07": {
  "text": "Bounded symbolic scheduling of the real in-memory WaitForVersionChange: W=2/3 waiter goroutines (current/stale/empty version, own cancellable context) on 1/2 keys against an environment thread running every script of 3/4 actions over {start waiter, cancel, Put, CasByVersion ok/conflict, Delete, Create, PutMany}; every schedule up to 2/3 preemptions. Monitors: a return value is justified by a moment during the call at which its documented condition held; every waiter whose condition holds does return (lost wake-up = deadlock); bookkeeping invariants after every step; table empty when all waiters are gone; lock-set check; a waiter on a record with a far-future (now+MaxInt64) expiration parks instead of re-arming a timer that fires at once.",
  "note": "Trusted: gosx scheduler and translation, z3; harness contexts; only unexpiring records. Redis: the polling loop over the server stub with the poll timer driven by the environment (every requested duration in (0,100ms], return within three poll periods). Free-running stress outside the claim.",
  "technique": TECH + "; bounded symbolic scheduling of goroutines, deadlock detection, lock-set check",
 },
 "C09": {
  "text": "Bounded symbolic scheduling of the real ECache: 2 goroutines x 1 operation (3 preemptions quick / 4 thorough), 2 goroutines x up to 2 operations, and one goroutine x 5 (quick) / 7 (thorough) calls, over {GetOrCreate, Remove, Clear} on <=2 (sequential entry: 4) keys, capacity 1..2 (sequential entry: 1..3), create function that blocks (yield) and may fail; every schedule up to the preemption bound with switches at Lock/Unlock, channel receive/close and inside create. Monitors: at most one creation per key in progress, create never called under the lock, no deadlock, capacity never exceeded, some sequential LRU history (program order respected) explains all returned values and the delete-callback log, every created value deleted exactly once after a final Clear; lock-set check on items/inflight.",
  "note": "Trusted: gosx scheduler and translation. More threads/ops/keys or preemptions outside the claim.",
  "technique": TECH + "; bounded symbolic scheduling of goroutines + lock-set check",
 },
 "C12": {
  "text": "Bounded symbolic model checking of the timer package: (a) step lemma from any queue of 0..4 (quick) / 0..7 (thorough) futures with symbolic fire times satisfying the heap invariant: Call with any delay (incl. 0/negative) and Cancel at any position, twice, of non-queued futures and of VoidFuture leave membership/fire time/function of every other future unchanged and preserve the invariant (real container/heap SSA); (b) real worker goroutines under the engine's scheduler with a symbolic clock and timers as environment: 2 Calls with symbolic delays (optionally waiting until the first has fired), optional Cancels incl. of a spent handle, lock-set check on the queue, the worker count and every future's index; monitors inside every callback: not early, at most once, never after a Cancel that returned before it was due.",
  "note": "Trusted: gosx scheduler/translation, z3; time.Now/NewTimer/Stop intrinsics over one symbolic non-decreasing clock; preemption bound 0 (switches where a goroutine blocks/ends; timers and select choices free). Runtime timer lateness outside the claim.",
  "technique": TECH + "; inductive step lemma + bounded symbolic scheduling with symbolic time",
 },
 "C13": {
  "text": "Safety lemmas and bounded scheduling standing in for the liveness statement: (a) one Call from the idle package starts exactly one worker, the function fires, the worker exits after its idle rounds, the count returns to zero and the next Call restarts one (pool limit {1,2,10}, symbolic delay/idle timeout); (b) 2 (quick) / 3 (thorough) Calls with symbolic delays and pool limit 2: every future fires (otherwise deadlock), worker count within [1,limit] during callbacks, wind-down to zero; (c) prompt-environment lateness: a near future scheduled while the dispatcher sleeps towards a far one (and a burst) starts within 16 ns of its due time when timers fire exactly on time; (d) add/cancel always leave a wake-up token when a worker exists.",
  "note": "Trusted: gosx scheduler/translation, z3; liveness = absence of deadlock under the engine's scheduler; fairness of the Go scheduler and real-time lateness are not modelled.",
  "technique": TECH + "; bounded symbolic scheduling, deadlock detection, discrete-event time for the lateness lemma",
 },
 "C01": {
  "text": "Bounded symbolic scheduling of the real lock code (Lock/TryLock/LockWithCtx/Unlock/lockInternal/tryLockInternal/supportTimeout) against a contract storage and a lease-timer contract written in the harness: 2 lockers x 2 steps (one entry: 3 steps x 1 step) over {LockWithCtx, TryLock, LockWithCtx cancelled at any point, (Lock, cancelled-before), Unlock}; distinct Lockers, ONE shared Locker, two providers; storage faults (request lost / reply lost, at most one) on every acquire/release-path call with orphan records lapsing at any later point; all schedules up to 1 (quick) / 2 (thorough) preemptions; plus an entry with symbolic clock and symbolic lease period. Monitor: ghost holder count == 1 at every successful acquire.",
  "note": "Trusted: gosx scheduler/translation; the storage contract stub (what C02/C03/C06/C07 establish), the timer contract stub (what C12/C13 establish); hypothesis of the property as an assumption (the record of a live tenure does not expire); no stall >= TTL/2 between timeout.Call and future.Store. More lockers/steps/preemptions and the real storages are outside the claim.",
  "technique": TECH + "; bounded symbolic scheduling of goroutines with symbolic fault placement",
 },
 "C04": {
  "text": "Bounded symbolic scheduling of the real lock code without faults: hand-off (every one of N callers gets the lock, a lost wake-up is a deadlock), cancellation before the call / at any point (incl. parked on the local token or in the storage wait) and failing TryLock (also one whose context ends while its storage call is in flight) leave nothing stored and nothing held, quiescence is clean (record gone, tokens back, fresh TryLock succeeds), attempts starting after Shutdown returned never acquire; distinct and shared Lockers; 1 (quick) / 2 (thorough) preemptions.",
  "note": "Trusted: as C01 (time abstracted away, no faults). 'After Shutdown' is read as attempts that start after Shutdown returned. Larger programs outside the claim.",
  "technique": TECH + "; bounded symbolic scheduling of goroutines, deadlock detection",
 },
 "C05": {
  "text": "Bounded symbolic scheduling with time: (1) a holder keeps the lock for R=2 (quick) / 4 (thorough) applied renewals while a contender is parked in LockWithCtx; the k-th renewal request is lost for every k in 0..R; prompt environment (time passes only when a timer fires, exactly when due); lease period in {1000,1001,2^30} ns (quick) / every value in [1000, 2^40] ns (thorough); (2) holder death after 0..R renewals: the contender acquires not before ExpiresAt and within 64 ns after it; (3) Unlock racing a renewal in flight and a re-Lock of the same Locker: at most one more renewal call, it changes nothing and arms nothing. Part (1) reproduces the recorded known finding (renewal chain stops after a transient error) and would report any other violation.",
  "note": "Trusted: as C01 but with real lazy expiry in the storage stub and no non-expiry assumption. Real-time 'about one lease period' is decided as a bound in the prompt environment.",
  "technique": TECH + "; bounded symbolic scheduling with discrete-event symbolic time",
 },
 "C20": {
  "text": "Bounded symbolic model checking of the path logic: (a) UnzipToFolder with an archive of 1 entry with a name of 1..5 bytes (quick) / 2 entries of 1..4 bytes and 1 entry of 1..7 bytes (thorough), every byte a solver variable, content modelled by its length, destination possibly holding an older longer file, destination spelled /dst/out, ., ./, out/ or /: every directory/file it asks the OS to create lies inside the destination, entries that stay inside land at destDir+name - filepath.Split/Join/Clean and zip.FileHeader.FileInfo run from their real SSA; counterexamples are replayed natively with a real archive in a temporary directory; (b) ZipFolder's walk callback on symbolic small trees (files/dirs, depth 1-2, names with spaces/dots, source dir with/without trailing slash, filter answers symbolic, recursive flag): archived names == selected relative paths, and UnzipToFolder maps them back.",
  "note": "Trusted: gosx translation (containment self-checked natively), z3; os/io/zip reader-writer/filepath.Walk are recording contract stubs with a minimal directory model. Content round trip (DEFLATE), permissions, symlinks, unicode, clashes, long names are outside the claim.",
  "technique": TECH + "; environment (file system, archive) as recording stubs",
 },
}

_PENDING = "check not built yet in this session (solver-based harness planned, see DESIGN.md section 4)"
NOT_APPLICABLE = {f"C{i:02d}": _PENDING for i in range(1, 21) if f"C{i:02d}" not in CHECKS}
