//go:build verif

package lru

import (
	stderrors "errors"
	"time"

	"github.com/acquirecloud/golibs/container/iterable"
)

// C08: the cache behaves as a reference LRU for every call sequence. C11 (second part): an LRU cache
// retains nothing beyond its live entries.

type zzLruEnt struct{ k, pk, v int }
type zzDel struct{ pk, v int }
type zzCreate struct {
	pk, v  int
	failed bool
}

var zzCreateErr = stderrors.New("create failed")

type zzLruModel struct {
	ents []zzLruEnt
	cap  int
}

func (m *zzLruModel) find(k int) int {
	for i := range m.ents {
		if m.ents[i].k == k {
			return i
		}
	}
	return -1
}

func (m *zzLruModel) remove(i int) {
	m.ents = append(m.ents[:i:i], m.ents[i+1:]...)
}

type zzLruHarness struct {
	c       *ECache[int, int, int]
	m       *zzLruModel
	mapF    func(int) int
	creates []zzCreate
	dels    []zzDel
	seenC   int
	seenD   int
}

func zzNewLru(kind, capacity int) *zzLruHarness {
	h := &zzLruHarness{m: &zzLruModel{cap: capacity}}
	if kind == 0 {
		h.mapF = func(pk int) int { return pk }
	} else {
		h.mapF = func(pk int) int { return pk & 3 }
	}
	createF := func(pk int) (int, error) {
		if vBool("createFails") {
			h.creates = append(h.creates, zzCreate{pk, 0, true})
			return 0, zzCreateErr
		}
		v := vInt("val")
		h.creates = append(h.creates, zzCreate{pk, v, false})
		return v, nil
	}
	delF := func(pk, v int) { h.dels = append(h.dels, zzDel{pk, v}) }
	c, err := NewECache[int, int, int](capacity, h.mapF, createF, delF)
	vAssert(err == nil && c != nil, "NewECache failed for a valid capacity")
	h.c = c
	return h
}

func (h *zzLruHarness) expectDels(want []zzDel) {
	vAssert(len(h.dels) == h.seenD+len(want), "delete callback invoked a wrong number of times")
	for i, d := range want {
		g := h.dels[h.seenD+i]
		vAssert(g.pk == d.pk && g.v == d.v, "delete callback invoked with a wrong key/value")
	}
	h.seenD = len(h.dels)
}

func (h *zzLruHarness) getOrCreate(pk int) {
	v, err := h.c.GetOrCreate(pk)
	k := h.mapF(pk)
	m := h.m
	if i := m.find(k); i >= 0 {
		vAssert(len(h.creates) == h.seenC, "create function called for a resident key")
		vAssert(err == nil && v == m.ents[i].v, "hit returned another value than the resident one")
		e := m.ents[i]
		m.remove(i)
		m.ents = append(m.ents, e)
		h.expectDels(nil)
		return
	}
	vAssert(len(h.creates) == h.seenC+1, "a miss must call the create function exactly once")
	cr := h.creates[h.seenC]
	h.seenC++
	vAssert(cr.pk == pk, "create function called with another key")
	if cr.failed {
		vAssert(err == zzCreateErr, "failed creation: error not passed through")
		h.expectDels(nil)
		return
	}
	vAssert(err == nil && v == cr.v, "miss returned another value than the created one")
	m.ents = append(m.ents, zzLruEnt{k, pk, cr.v})
	if len(m.ents) > m.cap {
		old := m.ents[0]
		m.remove(0)
		h.expectDels([]zzDel{{old.pk, old.v}})
	} else {
		h.expectDels(nil)
	}
}

func (h *zzLruHarness) remove(pk int) {
	ok := h.c.Remove(pk)
	m := h.m
	i := m.find(h.mapF(pk))
	vAssert(ok == (i >= 0), "Remove reports presence differently from the model")
	vAssert(len(h.creates) == h.seenC, "Remove called the create function")
	if i >= 0 {
		e := m.ents[i]
		m.remove(i)
		h.expectDels([]zzDel{{e.pk, e.v}})
	} else {
		h.expectDels(nil)
	}
}

func (h *zzLruHarness) clear() {
	n := h.c.Clear()
	m := h.m
	vAssert(n == len(m.ents), "Clear returned another count than the number of resident entries")
	vAssert(len(h.creates) == h.seenC, "Clear called the create function")
	var want []zzDel
	for _, e := range m.ents {
		want = append(want, zzDel{e.pk, e.v})
	}
	h.expectDels(want)
	m.ents = nil
}

// recency order observed through the public iterator of the underlying map
func (h *zzLruHarness) checkOrder() {
	vAssert(h.c.items.Len() == len(h.m.ents), "resident count differs from the model")
	vAssert(h.c.items.Len() <= h.m.cap, "more resident entries than the capacity")
	it := h.c.items.Iterator()
	for i := range h.m.ents {
		e, ok := it.Next()
		vAssert(ok && e.Key == h.m.ents[i].k && e.Value.v == h.m.ents[i].v && e.Value.pk == h.m.ents[i].pk, "recency order differs from the reference LRU")
	}
	_, ok := it.Next()
	vAssert(!ok, "more resident entries than the model")
	it.Close()
}

func (h *zzLruHarness) checkRetention() {
	nodes, pinned, wf := iterable.ZZNodes(h.c.items)
	vReach("retention-checked")
	vAssert(wf, "internal list is not well formed")
	vAssert(pinned == 0, "an entry is still pinned by an iterator the cache did not close")
	vAssert(nodes == h.c.items.Len()+1, "removed entries are still linked")
	vAssert(len(h.c.inflight) == 0, "in-flight table not empty at quiescence")
}

func zzC08History() {
	h := zzNewLru(vParam("KIND"), vConcrete(vRange("cap", 1, vParam("C"))))
	D := vParam("D")
	for step := 0; step < D; step++ {
		op := vChoose("op", 4)
		if op == 3 {
			break
		}
		switch op {
		case 0:
			h.getOrCreate(vInt("pk"))
		case 1:
			h.remove(vInt("pk"))
		case 2:
			h.clear()
		}
	}
	vReach("history-done")
	h.checkOrder()
	if vParam("RET") == 1 {
		h.checkRetention()
	}
}

// C11: inductive step. Any state satisfying the invariant (list == live entries + sentinel, nothing pinned,
// Len <= capacity) with n entries is isomorphic to a fresh cache after n successful creations of distinct keys.
func zzC11Step() {
	capacity := vConcrete(vRange("cap", 1, vParam("C")))
	h := zzNewLru(vParam("KIND"), capacity)
	n := vConcrete(vRange("n", 0, capacity))
	for i := 0; i < n; i++ {
		pk := vInt("pk0")
		vAssume(h.m.find(h.mapF(pk)) < 0)
		h.getOrCreate(pk)
		vAssume(len(h.m.ents) == i+1) // creation succeeded
	}
	h.checkRetention() // base: the construction satisfies the invariant
	switch vChoose("op", 3) {
	case 0:
		h.getOrCreate(vInt("pk"))
	case 1:
		h.remove(vInt("pk"))
	case 2:
		h.clear()
	}
	vReach("history-done")
	h.checkOrder()
	h.checkRetention()
}

// ExpirableCache: an expired resident item is replaced (delete callback once, create once)
type zzItem = ExpirableItem[int]

func zzC08Expirable() {
	capacity := vConcrete(vRange("cap", 1, vParam("C")))
	type ent struct {
		k   int
		it  zzItem
	}
	var model []ent
	var creates []zzItem
	var createKeys []int
	var dels []zzItem
	var delKeys []int
	createF := func(k int) (zzItem, error) {
		if vBool("createFails") {
			createKeys = append(createKeys, k)
			creates = append(creates, zzItem{Value: -1})
			return zzItem{}, zzCreateErr
		}
		now := time.Now()
		exp := now.Add(time.Duration(vInt64("ttl")))
		vAssume(!exp.Before(now)) // items are not created already expired
		it := NewCacheItem(vInt("val"), exp)
		createKeys = append(createKeys, k)
		creates = append(creates, it)
		return it, nil
	}
	delF := func(k int, v zzItem) { delKeys = append(delKeys, k); dels = append(dels, v) }
	c, err := NewExpirableCache[int, zzItem](capacity, createF, delF)
	vAssert(err == nil, "NewExpirableCache failed")
	find := func(k int) int {
		for i := range model {
			if model[i].k == k {
				return i
			}
		}
		return -1
	}
	seenC, seenD := 0, 0
	D := vParam("D")
	for step := 0; step < D; step++ {
		k := vInt("k")
		t0 := time.Now()
		v, gerr := c.GetOrCreate(k)
		t1 := time.Now()
		i := find(k)
		wantDel := []ent{}
		if i >= 0 {
			// resident: either still fresh (no callbacks) or expired (deleted once, then created again)
			old := model[i]
			if len(creates) == seenC {
				vAssert(!old.it.ExpiresAt.Before(t0), "an expired resident item was returned instead of being replaced")
				vAssert(gerr == nil && v.Value == old.it.Value, "hit returned another item")
				model = append(append(model[:i:i], model[i+1:]...), old)
			} else {
				vAssert(old.it.ExpiresAt.Before(t1), "a resident item that has not expired was dropped")
				model = append(model[:i:i], model[i+1:]...)
				wantDel = append(wantDel, old)
				i = -1
			}
		}
		if i < 0 {
			vAssert(len(creates) == seenC+1 && createKeys[seenC] == k, "a miss must call the create function exactly once with the key")
			cr := creates[seenC]
			seenC++
			if cr.Value == -1 && cr.ExpiresAt.IsZero() {
				vAssert(gerr == zzCreateErr, "failed creation: error not passed through")
			} else {
				vAssert(gerr == nil && v.Value == cr.Value, "miss returned another item than the created one")
				model = append(model, ent{k, cr})
				if len(model) > capacity {
					wantDel = append(wantDel, model[0])
					model = model[1:]
				}
			}
		}
		vAssert(len(dels) == seenD+len(wantDel), "delete callback invoked a wrong number of times")
		for j, d := range wantDel {
			vAssert(delKeys[seenD+j] == d.k && dels[seenD+j].Value == d.it.Value, "delete callback invoked with a wrong key/value")
		}
		seenD = len(dels)
	}
	vReach("history-done")
}
