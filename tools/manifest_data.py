HOOK_COMMITS = []

TECH = "bounded symbolic execution of the go/ssa form of the real functions; every path obligation (pc and not assertion; every implicit panic) decided by z3 over bit-vectors; counterexamples replayed natively"

CHECKS = {
 "C16": {
  "text": "Bounded symbolic model checking: UnmarshalBytes/String/Uint/Byte/Uint16/32/64 are executed symbolically from their SSA with the input length (0..12 quick, 0..20 thorough) and every input byte as solver variables; z3 shows on every path that no bounds/slice panic is reachable, that consumed lies in [1,len] on success and is 0 on error, and that the result is the decoded sub-range (aliasing the input iff newBuf is false). Holds for every byte string within the length bound, including all 64-bit length prefixes.",
  "note": "Trusted: the gosx SSA-to-SMT translation (validated per run by executing solver models of passing paths natively), z3; fmt.Errorf and the two unsafe cast helpers are engine intrinsics. Inputs longer than the bound are outside the claim.",
  "technique": TECH,
 },
}

_PENDING = "check not built yet in this session (solver-based harness planned, see DESIGN.md section 4)"
NOT_APPLICABLE = {f"C{i:02d}": _PENDING for i in range(1, 21) if f"C{i:02d}" not in CHECKS}
