//go:build verif

package xbinary

// zzWindow returns n symbolic bytes that are a window into a longer backing array (len < cap),
// as when a caller decodes from a prefix of a larger read buffer.
func zzWindow(name string, n int) []byte {
	slack := vChoose(name+"Slack", 2) * 3
	n = vConcrete(n)
	return vBytes(name, n+slack)[:n]
}

