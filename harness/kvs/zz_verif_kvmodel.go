//go:build verif

package PKGNAME

// Reference model of the documented kvs.Storage contract, shared by the in-memory and the Redis harnesses.
// A record whose expiration has passed is treated as deleted at that time.

import (
	"context"
	stderrors "errors"
	"time"

	"github.com/acquirecloud/golibs/errors"
	"github.com/acquirecloud/golibs/kvs"
)

// zzCtx is a minimal context: done channel + error, cancelled by the harness.
type zzCtx struct {
	done     chan struct{}
	err      error
	deadline time.Time // optional; the harness decides when (if ever) the context ends
}

func zzNewCtx() *zzCtx                                { return &zzCtx{done: make(chan struct{})} }
func (c *zzCtx) Deadline() (time.Time, bool)          { return c.deadline, !c.deadline.IsZero() }
func (c *zzCtx) Done() <-chan struct{}                { return c.done }
func (c *zzCtx) Err() error                           { return c.err }
func (c *zzCtx) Value(key any) any                    { return nil }
func (c *zzCtx) cancel() {
	if c.err == nil {
		c.err = context.Canceled
		close(c.done)
	}
}

var _ context.Context = (*zzCtx)(nil)

type zzRec struct {
	present bool
	val     []byte
	ver     string
	exp     *time.Time
}

type zzKV struct {
	keys []string
	recs []zzRec
	now  time.Time
}

func (m *zzKV) idx(key string) int {
	for i, k := range m.keys {
		if k == key {
			return i
		}
	}
	m.keys = append(m.keys, key)
	m.recs = append(m.recs, zzRec{})
	return len(m.keys) - 1
}

// live: the record exists and its expiration has not passed
func (m *zzKV) live(i int) bool {
	r := m.recs[i]
	if !r.present {
		return false
	}
	if r.exp != nil && r.exp.Before(m.now) {
		return false
	}
	return true
}

func zzBytesEq(a, b []byte) bool {
	if len(a) != len(b) {
		return false
	}
	for i := range a {
		if a[i] != b[i] {
			return false
		}
	}
	return true
}

func zzExpEq(a, b *time.Time) bool {
	if a == nil || b == nil {
		return a == nil && b == nil
	}
	return a.Equal(*b)
}

// zzMatch is the pattern semantics shared by the glob stub and the model: "*" matches everything,
// a trailing '*' is a prefix match, anything else must be equal.
func zzMatch(pattern, key string) bool {
	if pattern == "*" {
		return true
	}
	if n := len(pattern); n > 0 && pattern[n-1] == '*' {
		return len(key) >= n-1 && key[:n-1] == pattern[:n-1]
	}
	return pattern == key
}

// version freshness: every version handed out by a write must be new
type zzVersions struct{ seen []string }

func (v *zzVersions) add(s string) { v.seen = append(v.seen, s) }
func (v *zzVersions) fresh(s string) bool {
	if s == "" {
		return false
	}
	for _, o := range v.seen {
		if o == s {
			return false
		}
	}
	return true
}

func zzIsErr(err, class error) bool { return err != nil && stderrors.Is(err, class) }

// zzKVOp runs one symbolic operation on st and checks it against the model m (which is updated).
// keyOf picks a key (symbolic choice over the alphabet). Returns after asserting results.
func zzKVOp(st kvs.Storage, m *zzKV, vers *zzVersions, keyOf func(string) string, valOf func(string) []byte, expOf func(string) *time.Time) {
	ctx := context.Context(zzNewCtx())
	switch vChoose("op", 8) {
	case 0: // Create
		key := keyOf("key")
		rec := kvs.Record{Key: key, Value: valOf("val"), Version: "caller-version", ExpiresAt: expOf("exp")}
		cancelled := vParam("CTXCHECK") == 1 && vBool("ctxDone")
		if cancelled {
			ctx.(*zzCtx).cancel()
		}
		ver, err := st.Create(ctx, rec)
		i := m.idx(key)
		if cancelled {
			vAssert(err == context.Canceled, "Create with a done context did not return the context's error")
			vReach("op-done")
			return
		}
		if m.live(i) {
			vAssert(zzIsErr(err, errors.ErrExist), "Create on a present key did not fail with ErrExist")
			vAssert(ver == m.recs[i].ver, "Create on a present key did not report the stored version")
		} else {
			vAssert(err == nil, "Create on an absent (or expired) key failed")
			vAssert(vers.fresh(ver), "Create returned a version that was handed out before")
			vers.add(ver)
			m.recs[i] = zzRec{true, rec.Value, ver, rec.ExpiresAt}
		}
	case 1: // Get
		key := keyOf("key")
		r, err := st.Get(ctx, key)
		i := m.idx(key)
		if m.live(i) {
			vAssert(err == nil, "Get of a present key failed")
			vAssert(r.Key == key && zzBytesEq(r.Value, m.recs[i].val) && r.Version == m.recs[i].ver && zzExpEq(r.ExpiresAt, m.recs[i].exp), "Get returned another record than the last one written")
		} else {
			vAssert(zzIsErr(err, errors.ErrNotExist), "Get of an absent (or expired) key did not fail with ErrNotExist")
			m.recs[i].present = false
		}
	case 2: // GetMany (repeated keys allowed)
		n := vChoose("n", vParam("NB")+1)
		keys := make([]string, n)
		for j := range keys {
			keys[j] = keyOf("key")
		}
		res, err := st.GetMany(ctx, keys...)
		vAssert(err == nil && len(res) == n, "GetMany failed or returned a wrong number of slots")
		for j, key := range keys {
			i := m.idx(key)
			if m.live(i) {
				vAssert(res[j] != nil, "GetMany skipped a present key")
				vAssert(res[j].Key == key && zzBytesEq(res[j].Value, m.recs[i].val) && res[j].Version == m.recs[i].ver && zzExpEq(res[j].ExpiresAt, m.recs[i].exp), "GetMany returned another record than the last one written")
			} else {
				vAssert(res[j] == nil, "GetMany returned a record for an absent (or expired) key")
				m.recs[i].present = false
			}
		}
	case 3: // Put
		key := keyOf("key")
		rec := kvs.Record{Key: key, Value: valOf("val"), Version: "caller-version", ExpiresAt: expOf("exp")}
		r, err := st.Put(ctx, rec)
		i := m.idx(key)
		vAssert(err == nil, "Put failed")
		vAssert(r.Key == key && zzBytesEq(r.Value, rec.Value) && zzExpEq(r.ExpiresAt, rec.ExpiresAt), "Put returned another record than the one given")
		vAssert(vers.fresh(r.Version), "Put returned a version that was handed out before")
		vers.add(r.Version)
		m.recs[i] = zzRec{true, rec.Value, r.Version, rec.ExpiresAt}
	case 4: // PutMany (repeated keys allowed: the last one wins)
		n := vChoose("n", vParam("NB")) + 1
		recs := make([]kvs.Record, n)
		for j := range recs {
			recs[j] = kvs.Record{Key: keyOf("key"), Value: valOf("val"), Version: "caller-version", ExpiresAt: expOf("exp")}
		}
		err := st.PutMany(ctx, recs)
		vAssert(err == nil, "PutMany failed")
		for j := range recs {
			i := m.idx(recs[j].Key)
			m.recs[i] = zzRec{true, recs[j].Value, "?", recs[j].ExpiresAt}
		}
		// versions are observed through Get: every written key has a fresh version
		for j := range recs {
			last := true
			for l := j + 1; l < n; l++ {
				if recs[l].Key == recs[j].Key {
					last = false
				}
			}
			if !last {
				continue
			}
			i := m.idx(recs[j].Key)
			if !m.live(i) {
				continue // written already expired
			}
			g, gerr := st.Get(ctx, recs[j].Key)
			vAssert(gerr == nil, "Get after PutMany failed")
			vAssert(zzBytesEq(g.Value, recs[j].Value) && zzExpEq(g.ExpiresAt, recs[j].ExpiresAt), "PutMany stored another record than the one given")
			vAssert(vers.fresh(g.Version), "PutMany stored a version that was handed out before")
			vers.add(g.Version)
			m.recs[i].ver = g.Version
		}
	case 5: // CasByVersion
		key := keyOf("key")
		i := m.idx(key)
		ver := "stale-version"
		switch vChoose("verKind", 3) {
		case 0:
			ver = m.recs[i].ver
		case 1:
			ver = ""
		}
		rec := kvs.Record{Key: key, Value: valOf("val"), Version: ver, ExpiresAt: expOf("exp")}
		r, err := st.CasByVersion(ctx, rec)
		switch {
		case !m.live(i):
			vAssert(zzIsErr(err, errors.ErrNotExist), "CasByVersion on an absent (or expired) key did not fail with ErrNotExist")
			m.recs[i].present = false
		case m.recs[i].ver != ver:
			vAssert(zzIsErr(err, errors.ErrConflict), "CasByVersion with another version did not fail with ErrConflict")
		default:
			vAssert(err == nil, "CasByVersion with the current version failed")
			vAssert(r.Key == key && zzBytesEq(r.Value, rec.Value) && zzExpEq(r.ExpiresAt, rec.ExpiresAt), "CasByVersion returned another record than the one given")
			vAssert(vers.fresh(r.Version), "CasByVersion returned a version that was handed out before")
			vers.add(r.Version)
			m.recs[i] = zzRec{true, rec.Value, r.Version, rec.ExpiresAt}
		}
	case 6: // Delete
		key := keyOf("key")
		err := st.Delete(ctx, key)
		i := m.idx(key)
		if m.live(i) {
			vAssert(err == nil, "Delete of a present key failed")
		} else {
			vAssert(zzIsErr(err, errors.ErrNotExist), "Delete of an absent (or expired) key did not fail with ErrNotExist")
		}
		m.recs[i].present = false
	case 7: // ListKeys
		pattern := []string{"*", "a", "a*", "b*", "zz", "/*"}[vChoose("pattern", vParam("NPAT"))]
		it, err := st.ListKeys(ctx, pattern)
		vAssert(err == nil && it != nil, "ListKeys failed")
		var got []string
		for it.HasNext() {
			k, ok := it.Next()
			vAssert(ok, "ListKeys iterator: HasNext true but Next reports nothing")
			got = append(got, k)
		}
		it.Close()
		want := 0
		for i, key := range m.keys {
			if m.live(i) && zzMatch(pattern, key) {
				want++
				found := 0
				for _, g := range got {
					if g == key {
						found++
					}
				}
				vAssert(found == 1, "ListKeys does not list a present matching key exactly once")
			}
		}
		vAssert(len(got) == want, "ListKeys lists keys that are absent, expired or do not match")
	}
	vReach("op-done")
}
