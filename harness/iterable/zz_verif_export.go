//go:build verif

package iterable

// ZZNodes walks the internal list: number of linked nodes, number of nodes with a non-zero reference count,
// and whether the list is well formed (ends in the sentinel that Map.last points to, head has no predecessor).
func ZZNodes[K comparable, V any](m *Map[K, V]) (nodes, pinned int, wellFormed bool) {
	var last *rlItem[K, V]
	for p := m.head; p != nil; p = p.next {
		nodes++
		if p.refCnt != 0 {
			pinned++
		}
		last = p
		if nodes > 1000 {
			return nodes, pinned, false
		}
	}
	return nodes, pinned, last == m.last && last != nil && last.state == rlLast && m.head.prev == nil
}
