package gosx

import (
	"fmt"
	"go/types"
	"strings"

	"golang.org/x/tools/go/ssa"
)

// sentinel results of natives
type nativeStatus int

const (
	nDone    nativeStatus = iota // result computed
	nBlocked                     // thread blocked; the call instruction is re-executed later
	nPending                     // the native arranged its own continuation
	nDecline                     // the native does not apply to these arguments: execute the real SSA body
)

type nativeFn func(x *Exec, t *Thread, args []Value, call *callCtx) (Value, nativeStatus)

type callCtx struct {
	fn      *ssa.Function
	onRet   func(ret Value) (Value, bool)
	discard bool
}

func (x *Exec) callTarget(f *Frame, cc *ssa.CallCommon) (Value, []Value) {
	var args []Value
	var fn Value
	if cc.IsInvoke() {
		recv := x.get(f, cc.Value).(Iface)
		if recv.T == nil {
			x.goPanic("nil pointer dereference (method call on nil interface " + cc.Method.Name() + ")")
		}
		fn = x.lookupMethod(recv.T, cc.Method)
		args = append(args, recv.V)
	} else {
		fn = x.get(f, cc.Value)
	}
	for _, a := range cc.Args {
		args = append(args, x.get(f, a))
	}
	return fn, args
}

func (x *Exec) lookupMethod(t types.Type, m *types.Func) *Closure {
	ms := x.P.Prog.MethodSets.MethodSet(t)
	sel := ms.Lookup(m.Pkg(), m.Name())
	if sel == nil {
		x.unsupported(fmt.Sprintf("method %s not found on %s", m.Name(), t))
	}
	fn := x.P.Prog.MethodValue(sel)
	if fn == nil {
		x.unsupported(fmt.Sprintf("no SSA for method %s on %s", m.Name(), t))
	}
	return x.funcValue(fn)
}

func (x *Exec) execCall(t *Thread, f *Frame, cc *ssa.CallCommon, in *ssa.Call) {
	fn, args := x.callTarget(f, cc)
	x.invoke(t, fn, args, nil, false)
}

func fnName(fn *ssa.Function) string {
	if o := fn.Origin(); o != nil {
		return o.String()
	}
	return fn.String()
}

// invoke calls fn. onRet (optional) intercepts the result; discard drops it.
func (x *Exec) invoke(t *Thread, fnv Value, args []Value, onRet func(Value) (Value, bool), discard bool) {
	switch fn := fnv.(type) {
	case *ssa.Builtin:
		ret := x.builtin(t, fn, args)
		x.completeNative(t, ret, onRet, discard)
		return
	case *Closure:
		if fn == nil {
			x.goPanic("call of nil function")
		}
		if fn.Native != nil {
			x.completeNative(t, fn.Native(x, args), onRet, discard)
			return
		}
		name := fnName(fn.Fn)
		// an explicit stub of the check description takes precedence over an engine intrinsic
		if rep := x.P.replacement(fn.Fn, name); rep != nil {
			fn = &Closure{Fn: rep, Free: fn.Free}
			name = fnName(rep)
		}
		if nf := x.P.native(fn.Fn, name); nf != nil {
			ctx := &callCtx{fn: fn.Fn, onRet: onRet, discard: discard}
			ret, st := nf(x, t, args, ctx)
			switch st {
			case nDone:
				x.completeNative(t, ret, onRet, discard)
				return
			case nBlocked, nPending:
				return
			}
		}
		target := fn.Fn
		if rep := x.P.replacement(fn.Fn, name); rep != nil {
			target = rep
		}
		if target.Synthetic == "package initializer" && (!x.P.isRepoPkg(target.Pkg) || strings.Contains(target.Pkg.Pkg.Path(), "/genproto/")) {
			// initialisers of non-repository packages and of generated protobuf packages (reflection) are not run
			x.completeNative(t, nil, onRet, discard)
			return
		}
		if len(target.Blocks) == 0 {
			x.unsupported("call of function without body: " + name)
		}
		nf := x.newFrame(target)
		if len(args) != len(target.Params) {
			x.unsupported(fmt.Sprintf("arity mismatch calling %s: %d args, %d params", name, len(args), len(target.Params)))
		}
		for i, p := range target.Params {
			nf.regs[nf.info.idx[p]] = args[i]
		}
		for i, fv := range target.FreeVars {
			if i < len(fn.Free) {
				nf.regs[nf.info.idx[fv]] = fn.Free[i]
			}
		}
		nf.onReturn = onRet
		nf.discard = discard
		x.blocks++
		x.pushFrame(t, nf)
		return
	}
	x.unsupported(fmt.Sprintf("call of %T", fnv))
}

func (x *Exec) completeNative(t *Thread, ret Value, onRet func(Value) (Value, bool), discard bool) {
	if onRet != nil {
		var deliver bool
		ret, deliver = onRet(ret)
		if !deliver {
			return
		}
	}
	if discard {
		if len(t.frames) == 0 {
			return
		}
		cf := x.top(t)
		if cf.unwinding {
			return
		}
		switch cf.block.Instrs[cf.ip].(type) {
		case *ssa.RunDefers:
		default:
			cf.ip++
		}
		return
	}
	x.finishCall(t, ret)
}

// ---------------------------------------------------------------------
// builtins

func (x *Exec) builtin(t *Thread, b *ssa.Builtin, args []Value) Value {
	switch b.Name() {
	case "len":
		switch a := args[0].(type) {
		case Slice:
			return x.F.BV(64, uint64(a.Len))
		case Str:
			return x.F.BV(64, uint64(a.N()))
		case *MapObj:
			if a == nil {
				return x.F.BV(64, 0)
			}
			if a.Guard != nil {
				x.checkGuard(a.Guard, "len(map)")
			}
			return x.F.BV(64, uint64(a.Live))
		case *ChanObj:
			if a == nil {
				return x.F.BV(64, 0)
			}
			return x.F.BV(64, uint64(len(a.Buf)))
		case *ArrayVal:
			return x.F.BV(64, uint64(len(a.E)))
		case Ptr:
			if a.C != nil {
				return x.F.BV(64, uint64(len(a.C.Sub)))
			}
		}
	case "cap":
		switch a := args[0].(type) {
		case Slice:
			return x.F.BV(64, uint64(a.Cap))
		case *ChanObj:
			if a == nil {
				return x.F.BV(64, 0)
			}
			return x.F.BV(64, uint64(a.Cap))
		case *ArrayVal:
			return x.F.BV(64, uint64(len(a.E)))
		case Ptr:
			if a.C != nil {
				return x.F.BV(64, uint64(len(a.C.Sub)))
			}
		}
	case "append":
		s := args[0].(Slice)
		var add []Value
		switch a := args[1].(type) {
		case Slice:
			for i := 0; i < a.Len; i++ {
				add = append(add, x.loadCell(a.Arr.Sub[a.Off+i]))
			}
		case Str:
			for _, b := range x.strBytes(a) {
				add = append(add, b)
			}
		}
		if len(add) == 0 {
			return s
		}
		if s.Elem == nil {
			if a, ok := args[1].(Slice); ok {
				s.Elem = a.Elem
			} else {
				s.Elem = types.Typ[types.Uint8]
			}
		}
		if s.Len+len(add) <= s.Cap {
			for i, v := range add {
				x.storeCell(s.Arr.Sub[s.Off+s.Len+i], v)
			}
			s.Len += len(add)
			return s
		}
		n := s.Len + len(add)
		arr := x.newArrayCell(s.Elem, n)
		for i := 0; i < s.Len; i++ {
			x.storeCell(arr.Sub[i], x.loadCell(s.Arr.Sub[s.Off+i]))
		}
		for i, v := range add {
			x.storeCell(arr.Sub[s.Len+i], v)
		}
		return Slice{Arr: arr, Off: 0, Len: n, Cap: n, Elem: s.Elem}
	case "copy":
		d := args[0].(Slice)
		var src []Value
		switch a := args[1].(type) {
		case Slice:
			n := a.Len
			if d.Len < n {
				n = d.Len
			}
			for i := 0; i < n; i++ {
				src = append(src, x.loadCell(a.Arr.Sub[a.Off+i]))
			}
		case Str:
			bs := x.strBytes(a)
			n := len(bs)
			if d.Len < n {
				n = d.Len
			}
			for i := 0; i < n; i++ {
				src = append(src, bs[i])
			}
		}
		for i, v := range src {
			x.storeCell(d.Arr.Sub[d.Off+i], v)
		}
		return x.F.BV(64, uint64(len(src)))
	case "delete":
		m := args[0].(*MapObj)
		x.mapDelete(m, args[1])
		return nil
	case "close":
		ch := args[0].(*ChanObj)
		x.chanClose(ch)
		return nil
	case "recover":
		if t.panicVal != nil && len(t.frames) >= 2 && t.frames[len(t.frames)-2].unwinding {
			v := t.panicVal
			t.panicVal = nil
			t.panicMsg = ""
			if iv, ok := v.(Iface); ok {
				return iv
			}
			return Iface{}
		}
		return Iface{}
	case "print", "println":
		return nil
	case "min", "max":
		res := args[0]
		for _, a := range args[1:] {
			rt, at := res.(*Term), a.(*Term)
			// signedness unknown here: builtin type available through b.Type()
			sig := b.Type().(*types.Signature)
			signed := isSigned(sig.Params().At(0).Type())
			var lt *Term
			if signed {
				lt = x.F.Cmp(OpSlt, at, rt)
			} else {
				lt = x.F.Cmp(OpUlt, at, rt)
			}
			if b.Name() == "max" {
				lt = x.F.Not(lt)
				res = x.F.Ite(x.F.And(lt, x.F.Not(x.F.Eq(at, rt))), at, rt)
			} else {
				res = x.F.Ite(lt, at, rt)
			}
		}
		return res
	case "clear":
		switch a := args[0].(type) {
		case *MapObj:
			if a != nil {
				for _, e := range a.Entries {
					e.Deleted = true
				}
				a.Live = 0
			}
		case Slice:
			for i := 0; i < a.Len; i++ {
				x.storeCell(a.Arr.Sub[a.Off+i], x.zero(a.Elem))
			}
		}
		return nil
	case "ssa:wrapnilchk":
		p := args[0].(Ptr)
		if p.IsNil() {
			x.goPanic("value method called using nil pointer")
		}
		return p
	}
	x.unsupported("builtin " + b.Name())
	return nil
}

// ---------------------------------------------------------------------
// native table

func (p *Program) native(fn *ssa.Function, name string) nativeFn {
	if fn.Pkg != nil && fn.Pkg == p.Target {
		if nf, ok := shimNatives[fn.Name()]; ok && p.isHarnessFn(fn) {
			return nf
		}
	}
	if nf, ok := natives[name]; ok {
		return nf
	}
	return nil
}

func (p *Program) isHarnessFn(fn *ssa.Function) bool {
	return getFuncInfo(fn, p.HarnessFiles, p.Fset).harness || strings.HasPrefix(fn.Name(), "v")
}

func (p *Program) replacement(fn *ssa.Function, name string) *ssa.Function {
	if r, ok := p.replCache.Load(fn); ok {
		rf, _ := r.(*ssa.Function)
		return rf
	}
	var rep *ssa.Function
	if stub, ok := p.Cfg.Stubs[name]; ok {
		rep = p.Target.Func(stub)
		if rep == nil {
			panic("stub function " + stub + " not found in harness package for " + name)
		}
	}
	if rep == nil {
		p.replCache.Store(fn, (*ssa.Function)(nil))
		return nil
	}
	p.replCache.Store(fn, rep)
	return rep
}
