HOOK_COMMITS = []

TECH = "bounded symbolic execution of the go/ssa form of the real functions; every path obligation (pc and not assertion; every implicit panic) decided by z3 over bit-vectors; counterexamples replayed natively"

CHECKS = {
 "C16": {
  "text": "Bounded symbolic model checking: UnmarshalBytes/String/Uint/Byte/Uint16/32/64 are executed symbolically from their SSA with the input length (0..12 quick, 0..20 thorough) and every input byte as solver variables; z3 shows on every path that no bounds/slice panic is reachable, that consumed lies in [1,len] on success and is 0 on error, and that the result is the decoded sub-range (aliasing the input iff newBuf is false). Holds for every byte string within the length bound, including all 64-bit length prefixes.",
  "note": "Trusted: the gosx SSA-to-SMT translation (validated per run by executing solver models of passing paths natively), z3; fmt.Errorf and the two unsafe cast helpers are engine intrinsics. Inputs longer than the bound are outside the claim.",
  "technique": TECH,
 },
 "C15": {
  "text": "Bounded symbolic model checking of the codec: Marshal*/Unmarshal*/Writable*Size and ObjectsWriter are executed from their SSA with the value (all 2^64 varints, all fixed-width values), the destination length (0..size+1, arbitrary prior content) and byte-string contents as solver variables; z3 shows round trip, exact consumed/written counts, size prediction, error iff buffer shorter than the size, writer bytes == Marshal bytes, three-item concatenations and independence of newBuf=true results (cell identity). Byte strings at lengths 0..4, 126..129 (quick) and 16382..16385 (thorough).",
  "note": "Trusted: gosx translation (self-checked natively on solver models every run), z3; fmt.Errorf and the unsafe cast helpers are intrinsics; the io.Writer is a harness sink that never fails. Byte strings longer than 16385 bytes are outside the claim.",
  "technique": TECH,
 },
 "C14": {
  "text": "Bounded symbolic model checking with an inductive step: for every capacity 0..4 (quick) / 0..8 (thorough) the ring buffer is put into an arbitrary representation state (every read/write index pair, symbolic contents, zero outside the live window), one operation with symbolic arguments (Skip/At unconstrained 64-bit) is executed from the real SSA and z3 shows the result and post-state equal the FIFO model's, the invariant (incl. zeroed consumed slots) is re-established and At panics exactly out of range - covering histories of any length for those capacities; plus API histories from the constructor and SliceFill for all lengths 0..130.",
  "note": "Trusted: gosx translation (self-checked natively), z3; instantiation ringBuffer[int]; fmt intrinsics. Larger capacities and NewRingBuffer(MaxUint) are outside the claim.",
  "technique": TECH + "; inductive step from a symbolic invariant state",
 },
 "C17": {
  "text": "Bounded symbolic model checking in four groups: (1) constructor validation for every 64-bit block size rejected by GetBlocksInSegment (must return ErrInvalid, no panic) and every accepted size up to 1 (quick) / 3 (thorough) pages with symbolic buffer size; (2) index arithmetic of Block/getBlockIdxInHdr for constant block sizes, 1..65536 segments and all index pairs: ranges disjoint, inside their segment, outside headers, header bits injective (z3 with cvc5 --solve-bv-as-int=sum as fallback for the division-heavy obligations); (3) inductive step on the real in-memory buffer with all bytes symbolic and any free-hint satisfying the invariant: ArrangeBlock/FreeBlock/Block change exactly one header bit or nothing, ErrExhausted iff nothing free, Available tracks, lock-set check on header bytes/freeIdx; (4) reopening arbitrary bytes reproduces the allocated set.",
  "note": "Trusted: gosx translation (self-checked natively), z3/cvc5; os.Getpagesize()=4096; Buffer contract stub in groups 1-2; sync.Mutex/atomic intrinsics. Bitmap reasoning only for block sizes <= 4 (quick) / 8 (thorough) and <= 3 segments; the memory-mapped backend and real concurrency beyond the lock-set argument are outside the claim.",
  "technique": TECH + "; inductive step from a symbolic invariant state; lock-set check",
 },
}

_PENDING = "check not built yet in this session (solver-based harness planned, see DESIGN.md section 4)"
NOT_APPLICABLE = {f"C{i:02d}": _PENDING for i in range(1, 21) if f"C{i:02d}" not in CHECKS}
