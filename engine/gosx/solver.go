package gosx

import (
	"bufio"
	"fmt"
	"io"
	"os"
	"os/exec"
	"regexp"
	"strconv"
	"strings"
	"time"
)

type SatResult int

const (
	Unsat SatResult = iota
	Sat
	Unknown
)

func (r SatResult) String() string {
	return [...]string{"unsat", "sat", "unknown"}[r]
}

// Solver wraps one long-lived SMT solver process (z3 -in or cvc5 --incremental).
type Solver struct {
	Kind      string // "z3", "z3-new", "cvc5", "cvc5-int"
	TimeoutMs int
	cmd       *exec.Cmd
	in        io.WriteCloser
	out       *bufio.Reader
	pr        smtPrinter
	inPath    bool
	scopeOpen bool
	sentPC    int
	Queries   int
	SatN      int
	UnsatN    int
	UnknownN  int
	Rescued   int
	Errors    int
	Time      time.Duration
	LastErr   string
	log       io.Writer
}

func solverArgv(kind string, timeoutMs int) []string {
	switch kind {
	case "z3":
		return []string{"z3", "-in", fmt.Sprintf("-t:%d", timeoutMs)}
	case "z3-new":
		return []string{"z3-new", "-in", fmt.Sprintf("-t:%d", timeoutMs)}
	case "cvc5":
		return []string{"cvc5", "--incremental", "--produce-models", "--lang", "smt2", fmt.Sprintf("--tlimit-per=%d", timeoutMs)}
	case "cvc5-int":
		return []string{"cvc5", "--incremental", "--produce-models", "--lang", "smt2", "--solve-bv-as-int=sum", fmt.Sprintf("--tlimit-per=%d", timeoutMs)}
	}
	panic("unknown solver kind " + kind)
}

func NewSolver(kind string, timeoutMs int) (*Solver, error) {
	s := &Solver{Kind: kind, TimeoutMs: timeoutMs}
	if err := s.start(); err != nil {
		return nil, err
	}
	return s, nil
}

func (s *Solver) start() error {
	argv := solverArgv(s.Kind, s.TimeoutMs)
	s.cmd = exec.Command(argv[0], argv[1:]...)
	in, err := s.cmd.StdinPipe()
	if err != nil {
		return err
	}
	out, err := s.cmd.StdoutPipe()
	if err != nil {
		return err
	}
	s.cmd.Stderr = os.Stderr
	if err := s.cmd.Start(); err != nil {
		return err
	}
	s.in = in
	s.out = bufio.NewReaderSize(out, 1<<16)
	if p := os.Getenv("GOSX_SMTLOG"); p != "" && s.log == nil {
		f, _ := os.OpenFile(p, os.O_CREATE|os.O_WRONLY|os.O_APPEND, 0644)
		s.log = f
	}
	if strings.HasPrefix(s.Kind, "cvc5") {
		s.send("(set-logic ALL)\n")
	}
	s.inPath = false
	return nil
}

func (s *Solver) Close() {
	if s.cmd != nil {
		s.in.Close()
		s.cmd.Process.Kill()
		s.cmd.Wait()
		s.cmd = nil
	}
}

func (s *Solver) send(txt string) {
	if s.log != nil {
		io.WriteString(s.log, txt)
	}
	io.WriteString(s.in, txt)
}

// roundTrip sends text followed by an echo marker and returns the output lines before the marker.
func (s *Solver) roundTrip(txt string) ([]string, error) {
	s.send(txt + "(echo \"@@done\")\n")
	var lines []string
	for {
		line, err := s.out.ReadString('\n')
		if err != nil {
			return lines, fmt.Errorf("solver died: %v", err)
		}
		line = strings.TrimRight(line, "\r\n")
		if strings.Contains(line, "@@done") {
			return lines, nil
		}
		if line != "" {
			lines = append(lines, line)
		}
	}
}

// BeginPath opens a fresh scope for one execution path.
func (s *Solver) BeginPath() {
	if s.inPath {
		s.EndPath()
	}
	s.pr = smtPrinter{defined: map[int]bool{}, declVar: map[string]bool{}, sb: &strings.Builder{}}
	s.inPath = true
	s.scopeOpen = false
	s.sentPC = 0
}

func (s *Solver) EndPath() {
	if !s.inPath {
		return
	}
	s.inPath = false
	if s.scopeOpen {
		s.send("(pop 1)\n")
		s.scopeOpen = false
	}
	s.pr.sb.Reset()
}

// Check decides pc ∧ extra. pc is the full list of path-condition conjuncts; only the not yet sent
// suffix is transmitted. If wantModel is set and the answer is sat, values for vars are returned.
func (s *Solver) Check(pc []*Term, extra *Term, vars []*Term) (SatResult, map[string]uint64) {
	if !s.inPath {
		s.BeginPath()
	}
	sb := s.pr.sb
	if !s.scopeOpen {
		sb.WriteString("(push 1)\n")
		s.scopeOpen = true
	}
	for ; s.sentPC < len(pc); s.sentPC++ {
		n := s.pr.emit(pc[s.sentPC])
		fmt.Fprintf(sb, "(assert %s)\n", n)
	}
	var en string
	if extra != nil {
		en = s.pr.emit(extra)
	}
	for _, v := range vars {
		s.pr.emit(v)
	}
	sb.WriteString("(push 1)\n")
	if extra != nil {
		fmt.Fprintf(sb, "(assert %s)\n", en)
	}
	sb.WriteString("(check-sat)\n")
	txt := sb.String()
	sb.Reset()
	start := time.Now()
	s.Queries++
	lines, err := s.roundTrip(txt)
	res := Unknown
	if err != nil {
		s.LastErr = err.Error()
		s.Errors++
		s.Time += time.Since(start)
		s.restart()
		s.UnknownN++
		return Unknown, nil
	}
	bad := false
	for _, l := range lines {
		switch {
		case strings.HasPrefix(l, "(error"):
			bad = true
			s.LastErr = l
		case l == "sat":
			res = Sat
		case l == "unsat":
			res = Unsat
		case l == "unknown" || l == "timeout":
			res = Unknown
		}
	}
	if bad {
		res = Unknown
		s.Errors++
	}
	var model map[string]uint64
	if res == Sat && len(vars) > 0 {
		var q strings.Builder
		q.WriteString("(get-value (")
		for _, v := range vars {
			q.WriteString("|" + v.Name + "| ")
		}
		q.WriteString("))\n")
		ml, err := s.roundTrip(q.String())
		if err == nil {
			model = parseModel(strings.Join(ml, " "))
		}
	}
	s.send("(pop 1)\n")
	s.Time += time.Since(start)
	switch res {
	case Sat:
		s.SatN++
	case Unsat:
		s.UnsatN++
	default:
		s.UnknownN++
	}
	return res, model
}

func (s *Solver) restart() {
	s.Close()
	s.start()
	// the path scope is lost; force the caller's next Check to resend everything
	if s.inPath {
		s.pr = smtPrinter{defined: map[int]bool{}, declVar: map[string]bool{}, sb: &strings.Builder{}}
		s.scopeOpen = false
		s.sentPC = 0
	}
}

var modelRe = regexp.MustCompile(`\(\s*\|?([^\s|()]+)\|?\s+(#x[0-9a-fA-F]+|#b[01]+|true|false)\s*\)`)

func parseModel(txt string) map[string]uint64 {
	m := map[string]uint64{}
	for _, g := range modelRe.FindAllStringSubmatch(txt, -1) {
		name, val := g[1], g[2]
		switch {
		case val == "true":
			m[name] = 1
		case val == "false":
			m[name] = 0
		case strings.HasPrefix(val, "#x"):
			v, _ := strconv.ParseUint(val[2:], 16, 64)
			m[name] = v
		case strings.HasPrefix(val, "#b"):
			v, _ := strconv.ParseUint(val[2:], 2, 64)
			m[name] = v
		}
	}
	return m
}
