//go:build verif

package inmem

import (
	"time"

	"github.com/acquirecloud/golibs/kvs"
	"github.com/gobwas/glob"
)

// glob stub: the matcher is the shared zzMatch semantics
type zzGlob struct{ pattern string }

func (g zzGlob) Match(s string) bool { return zzMatch(g.pattern, s) }

func zzGlobCompile(pattern string, separators ...rune) (glob.Glob, error) {
	return zzGlob{pattern}, nil
}

func zzNewID() string { return vToken("ver-") }

var zzKeyAlphabet = []string{"a", "b", "/a"}

// C03 / C06 (inmem): one operation from an arbitrary pre-state.
// EXPIRED=0: every expiry lies in the future (C03); EXPIRED=1: expiry instants are unconstrained relative to now,
// except that the single instant now == ExpiresAt is excluded (C06).
func zzKVStepInmem() {
	st := New()
	s := st.(*service)
	now := vNow()
	m := &zzKV{now: now}
	vers := &zzVersions{}
	minOff := int64(vParam("MINOFF"))
	expOf := func(name string) *time.Time {
		if vBool(name + "Nil") {
			return nil
		}
		if vParam("FARFUTURE") == 1 && vChoose(name+"Never", 2) == 1 {
			t := now.Add(time.Duration(1<<63 - 1)) // the "never expires" idiom: as far ahead as a Duration reaches
			return &t
		}
		off := vInt64(name + "Off")
		vAssume(off <= 1<<50 && off >= -(1<<50))
		if vParam("EXPIRED") == 1 {
			vAssume(off >= minOff || off <= -minOff)
		} else {
			vAssume(off >= minOff)
		}
		t := now.Add(time.Duration(off))
		return &t
	}
	valOf := func(name string) []byte {
		switch vChoose(name+"Kind", 3) {
		case 0:
			return nil
		case 1:
			return []byte{}
		}
		return vBytes(name, 1)
	}
	keyOf := func(name string) string { return zzKeyAlphabet[vChoose(name, len(zzKeyAlphabet))] }
	// arbitrary pre-state over the first K keys of the alphabet
	K := vParam("K")
	for i := 0; i < K; i++ {
		key := zzKeyAlphabet[i]
		j := m.idx(key)
		if vBool("present") {
			ver := vToken("pre-")
			vers.add(ver)
			r := zzRec{true, valOf("preVal"), ver, expOf("preExp")}
			m.recs[j] = r
			s.recs[key] = kvs.Record{Key: key, Value: r.val, Version: ver, ExpiresAt: r.exp}
		}
	}
	vers.add("caller-version")
	vers.add("stale-version")
	vGuardedBy(s.recs, &s.lock)
	vGuardedBy(s.verChange, &s.lock)
	zzKVOp(st, m, vers, keyOf, valOf, expOf)
	// post-state: every record that has not expired is physically identical to the model's; nothing else is live
	for i, key := range m.keys {
		r, ok := s.recs[key]
		if m.live(i) {
			vAssert(ok, "a live record disappeared from the store")
			vAssert(r.Key == key && zzBytesEq(r.Value, m.recs[i].val) && r.Version == m.recs[i].ver && zzExpEq(r.ExpiresAt, m.recs[i].exp), "stored record differs from the model")
		} else if ok {
			vAssert(r.ExpiresAt != nil && r.ExpiresAt.Before(now), "the store holds a record the model says is absent and that has not expired")
		}
	}
	vAssert(!vHeld(&s.lock), "operation returned with the service lock held")
}
