#!/usr/bin/env python3
"""Regenerates /verif/MANIFEST.json from tools/manifest_data.py (kept as one table so it stays valid)."""
import json, os, sys
sys.path.insert(0, os.path.dirname(__file__))
from manifest_data import CHECKS, NOT_APPLICABLE, HOOK_COMMITS

ENV = "GOFLAGS=-mod=mod GOPROXY=off GOSUMDB=off GOTOOLCHAIN=local"
m = {
    "version": 1,
    "setup_cmd": f"cd /verif/engine && {ENV} go build -o /verif/bin/gosx ./cmd/gosx",
    "hooks": {
        "guard": "verif",
        "enable": "harness and shim files (//go:build verif) are injected into the package under test through go/packages Overlay and `go test -overlay`; -tags verif; nothing is written into /repo",
        "baseline_off_cmd": "cd /repo && go test -mod=mod -vet=off -count=1 -timeout 25m ./...",
        "source_commits": HOOK_COMMITS,
        "add_only": True,
    },
    "engines": [{
        "name": "gosx",
        "path": "engine/",
        "serves_properties": sorted(CHECKS.keys()),
        "kind_free_text": "forking symbolic executor of go/ssa (built from /repo's working tree on every run) that emits QF_BV SMT-LIB2 to a long-lived z3 process; counterexamples are replayed natively with go test -overlay",
    }],
    "checks": [],
    "not_applicable": [{"property_id": k, "reason": v} for k, v in sorted(NOT_APPLICABLE.items())],
    "notes": "Exit codes: 0 held within the stated bounds (KNOWN-FINDING lines possible); 1 VIOLATION (replay-confirmed); 2 INCONCLUSIVE (solver unknown, unwind/budget, unsupported instruction, harness build, non-reproducing counterexample) - never a VIOLATION line in that case.",
}
for pid in sorted(CHECKS):
    c = CHECKS[pid]
    m["checks"].append({
        "property_id": pid,
        "quick_cmd": f"/verif/bin/gosx check {pid} --tier quick",
        "thorough_cmd": f"/verif/bin/gosx check {pid} --tier thorough",
        "evidence_file": f"evidence/{pid}.json",
        "replay_cmd_template": "bash {path}",
        "engine": "gosx",
        "level_claimed": {"category": "model_checking", "text": c["text"], "design_ref": c.get("design_ref", "DESIGN.md section 4 " + pid)},
        "level_note": c["note"],
        "technique": c["technique"],
    })
json.dump(m, open("/verif/MANIFEST.json", "w"), indent=1)
print("MANIFEST.json written:", len(m["checks"]), "checks,", len(m["not_applicable"]), "not applicable")
