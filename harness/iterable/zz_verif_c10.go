//go:build verif

package iterable

// C10 / C11: ordered map under any mutation history, against a reference model
// (entries with sequence numbers; an iterator is a position; Next = first live entry at or after it).

type zzEnt struct {
	seq, key, val int
	live          bool
}

type zzIter struct {
	it   Iterator[MapEntry[int, int]]
	pos  int
	open bool
}

type zzMapModel struct {
	ents []zzEnt
	next int
}

func (mm *zzMapModel) find(k int) int {
	for i := range mm.ents {
		if mm.ents[i].live && mm.ents[i].key == k {
			return i
		}
	}
	return -1
}

func (mm *zzMapModel) live() int {
	n := 0
	for i := range mm.ents {
		if mm.ents[i].live {
			n++
		}
	}
	return n
}

// firstFrom returns the index of the first live entry with seq >= pos, or -1
func (mm *zzMapModel) firstFrom(pos int) int {
	for i := range mm.ents {
		if mm.ents[i].live && mm.ents[i].seq >= pos {
			return i
		}
	}
	return -1
}

func zzC10Observe(m *Map[int, int], mm *zzMapModel) {
	vAssert(m.Len() == mm.live(), "Len differs from the number of live keys")
	k, ok := m.First()
	f := mm.firstFrom(0)
	vAssert(ok == (f >= 0), "First reports presence differently from the model")
	if f >= 0 {
		vAssert(k == mm.ents[f].key, "First is not the oldest live key")
	}
}

func zzC10History() {
	D := vParam("D")
	I := vParam("I")
	m := NewMap[int, int]()
	mm := &zzMapModel{}
	var its []*zzIter
	open := 0
	// PRE entries added up front (distinct keys), so that D steps reach deeper iterator scenarios
	for i := 0; i < vParam("PRE"); i++ {
		k, v := vInt("k0"), vInt("v0")
		vAssume(mm.find(k) < 0)
		vAssert(m.Add(k, v) == nil, "Add of a new key failed")
		mm.ents = append(mm.ents, zzEnt{mm.next, k, v, true})
		mm.next++
	}
	for step := 0; step < D; step++ {
		op := vChoose("op", 7)
		if op == 6 {
			break
		}
		if op == 0 && vParam("PRE") > 0 && vParam("ADDOK") == 0 {
			vAssume(false) // pre-filled variant: no further Add (covered by the PRE=0 entry)
		}
		switch op {
		case 0:
			k, v := vInt("k"), vInt("v")
			err := m.Add(k, v)
			i := mm.find(k)
			vAssert((err != nil) == (i >= 0), "Add fails exactly when the key is present")
			if i < 0 {
				mm.ents = append(mm.ents, zzEnt{mm.next, k, v, true})
				mm.next++
			}
			got, ok := m.Get(k)
			j := mm.find(k)
			vAssert(ok && got == mm.ents[j].val, "Get after Add")
		case 1:
			k := vInt("k")
			m.Remove(k)
			if i := mm.find(k); i >= 0 {
				mm.ents[i].live = false
			}
			_, ok := m.Get(k)
			vAssert(!ok, "Get finds a removed key")
		case 2:
			vAssume(open < I)
			its = append(its, &zzIter{it: m.Iterator(), pos: 0, open: true})
			open++
		case 3, 4, 5:
			vAssume(open > 0)
			var cands []*zzIter
			for _, z := range its {
				if z.open {
					cands = append(cands, z)
				}
			}
			z := cands[vChoose("it", len(cands))]
			switch op {
			case 3:
				has := z.it.HasNext()
				vAssert(has == (mm.firstFrom(z.pos) >= 0), "HasNext differs from the model")
			case 4:
				e, ok := z.it.Next()
				f := mm.firstFrom(z.pos)
				vAssert(ok == (f >= 0), "Next reports an element exactly when a live entry is at or after the position")
				if f >= 0 {
					vAssert(e.Key == mm.ents[f].key && e.Value == mm.ents[f].val, "Next returned another entry than the first live one at or after the position")
					z.pos = mm.ents[f].seq + 1
				}
			case 5:
				vAssert(z.it.Close() == nil, "Close failed")
				z.open = false
				open--
			}
		}
		zzC10Observe(m, mm)
	}
	vReach("history-done")
	// a fresh symbolic key
	kq := vInt("kq")
	got, ok := m.Get(kq)
	j := mm.find(kq)
	vAssert(ok == (j >= 0), "Get reports presence differently from the model")
	if j >= 0 {
		vAssert(got == mm.ents[j].val, "Get returns another value than the last one added")
	}
	// a new iterator drained to the end yields exactly the live entries in insertion order
	it := m.Iterator()
	pos := 0
	for {
		f := mm.firstFrom(pos)
		e, ok := it.Next()
		vAssert(ok == (f >= 0), "drain: iterator ends early or late")
		if f < 0 {
			break
		}
		vAssert(e.Key == mm.ents[f].key && e.Value == mm.ents[f].val, "drain: wrong entry or order")
		pos = mm.ents[f].seq + 1
	}
	it.Close()
	if vParam("RET") == 1 {
		// C11: with every iterator closed nothing but the live entries (and the sentinel) is retained
		for _, z := range its {
			if z.open {
				z.it.Close()
			}
		}
		nodes, refs := 0, 0
		var lastNode *rlItem[int, int]
		for p := m.head; p != nil; p = p.next {
			nodes++
			if p.refCnt != 0 {
				refs++
			}
			lastNode = p
			vAssert(nodes <= mm.next+2, "list longer than every entry ever added (cycle?)")
		}
		vReach("retention-checked")
		vAssert(refs == 0, "an entry is still pinned although every iterator is closed")
		vAssert(nodes == m.Len()+1, "removed entries are still linked although every iterator is closed")
		vAssert(lastNode == m.last && lastNode.state == rlLast, "list does not end in the sentinel")
		vAssert(m.head.prev == nil, "head has a predecessor")
	}
}
