//go:build verif

package lru

// C09: the LRU cache under concurrency: single-flight, linearizable, nothing leaked.
// The outer key carries the calling thread so that create calls can be attributed to operations.

type zzPK struct{ thread, key int }

type zzCOp struct {
	kind int // 0 GetOrCreate 1 Remove 2 Clear
	key  int
	// results
	val     int
	err     error
	ok      bool
	n       int
	created int // value produced by this operation's successful create call (0 = none)
	failed  int // failed create calls made by this operation
}

type zzCDel struct{ key, v int }

// sequential explanation: replay the operations in the given order on a reference LRU
func zzC09Explain(ops []*zzCOp, order []int, capacity int, dels []zzCDel) bool {
	type ent struct{ k, v int }
	var m []ent
	find := func(k int) int {
		for i := range m {
			if m[i].k == k {
				return i
			}
		}
		return -1
	}
	var want []zzCDel
	for _, i := range order {
		o := ops[i]
		switch o.kind {
		case 0:
			if j := find(o.key); j >= 0 {
				if o.err != nil || o.val != m[j].v || o.created != 0 {
					return false
				}
				e := m[j]
				m = append(append(m[:j:j], m[j+1:]...), e)
			} else if o.created != 0 {
				if o.err != nil || o.val != o.created {
					return false
				}
				m = append(m, ent{o.key, o.created})
				if len(m) > capacity {
					want = append(want, zzCDel{m[0].k, m[0].v})
					m = m[1:]
				}
			} else if o.err == nil || o.failed == 0 {
				return false
			}
		case 1:
			j := find(o.key)
			if o.ok != (j >= 0) {
				return false
			}
			if j >= 0 {
				want = append(want, zzCDel{m[j].k, m[j].v})
				m = append(m[:j:j], m[j+1:]...)
			}
		case 2:
			if o.n != len(m) {
				return false
			}
			for _, e := range m {
				want = append(want, zzCDel{e.k, e.v})
			}
			m = nil
		}
	}
	if len(want) != len(dels) {
		return false
	}
	for i := range want {
		if want[i] != dels[i] {
			return false
		}
	}
	return true
}

// all interleavings of the per-thread programs (program order kept)
func zzInterleavings(progs [][]int) [][]int {
	total := 0
	for _, p := range progs {
		total += len(p)
	}
	if total == 0 {
		return [][]int{{}}
	}
	var out [][]int
	for t := range progs {
		if len(progs[t]) == 0 {
			continue
		}
		rest := make([][]int, len(progs))
		copy(rest, progs)
		rest[t] = progs[t][1:]
		for _, tail := range zzInterleavings(rest) {
			out = append(out, append([]int{progs[t][0]}, tail...))
		}
	}
	return out
}

func zzC09Concurrent() {
	capacity := vConcrete(vRange("cap", 1, vParam("C")))
	T, P, NK := vParam("T"), vParam("P"), vParam("NK")
	inprog := map[int]int{}
	var dels []zzCDel
	var created []int
	nextVal := 100
	running := make([]*zzCOp, T)
	var c *ECache[zzPK, int, int]
	// the create function is entered with the cache lock released; it "blocks" (yields) and may fail
	createF := func(pk zzPK) (int, error) {
		o := running[pk.thread]
		inprog[pk.key]++
		vAssert(inprog[pk.key] == 1, "two creations for the same key are in progress at the same time")
		vAssert(!vHeld(&c.lock), "create function called with the cache lock held")
		fails := vParam("FAILS") == 1 && vChoose("createFails", 2) == 1
		vYield()
		inprog[pk.key]--
		if fails {
			o.failed++
			return 0, zzCreateErr
		}
		nextVal++
		created = append(created, nextVal)
		vAssert(o.created == 0, "one GetOrCreate call created twice successfully")
		o.created = nextVal
		return nextVal, nil
	}
	delF := func(pk zzPK, v int) { dels = append(dels, zzCDel{pk.key, v}) }
	var err error
	c, err = NewECache[zzPK, int, int](capacity, func(pk zzPK) int { return pk.key }, createF, delF)
	vAssert(err == nil, "NewECache failed")
	vGuardedBy(c.items, &c.lock)
	vGuardedBy(c.inflight, &c.lock)
	var ops []*zzCOp
	progs := make([][]int, T)
	for t := 0; t < T; t++ {
		np := 1
		if P > 1 {
			np = P
			if vParam("FIXLEN") == 0 {
				np = 1 + vChoose("len", P)
			}
		}
		for j := 0; j < np; j++ {
			o := &zzCOp{kind: vChoose("kind", vParam("KINDS"))}
			if o.kind != 2 {
				o.key = vChoose("key", NK)
			}
			progs[t] = append(progs[t], len(ops))
			ops = append(ops, o)
		}
	}
	fin := make([]chan struct{}, T)
	for t := 0; t < T; t++ {
		t := t
		fin[t] = make(chan struct{})
		vSpawn("client", func() {
			for _, i := range progs[t] {
				o := ops[i]
				running[t] = o
				switch o.kind {
				case 0:
					o.val, o.err = c.GetOrCreate(zzPK{t, o.key})
				case 1:
					o.ok = c.Remove(zzPK{t, o.key})
				case 2:
					o.n = c.Clear()
				}
			}
			close(fin[t])
		})
	}
	for t := 0; t < T; t++ {
		<-fin[t] // a waiter that is never released shows as a deadlock here
	}
	vReach("quiescent")
	c.lock.Lock()
	vAssert(c.items.Len() <= capacity, "more resident values than the capacity")
	vAssert(len(c.inflight) == 0, "in-flight table not empty at quiescence")
	c.lock.Unlock()
	ok := false
	for _, order := range zzInterleavings(progs) {
		if zzC09Explain(ops, order, capacity, dels) {
			ok = true
			break
		}
	}
	vAssert(ok, "no sequential LRU history explains the returned values and delete callbacks")
	// after a final Clear every successfully created value has been deleted exactly once
	c.Clear()
	for _, v := range created {
		n := 0
		for _, d := range dels {
			if d.v == v {
				n++
			}
		}
		vAssert(n == 1, "a created value was not passed to the delete callback exactly once")
	}
	vAssert(len(dels) == len(created), "delete callback invoked for a value that was never created")
	vReach("cleared")
}
