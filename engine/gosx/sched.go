package gosx

import (
	"fmt"
	"go/token"
	"go/types"

	"golang.org/x/tools/go/ssa"
)

func (x *Exec) spawnThread(name string, fn Value, args []Value) *Thread {
	x.nextTID++
	t := &Thread{id: x.nextTID, name: name, held: map[*Cell]int{}}
	x.threads = append(x.threads, t)
	// first frame
	saved := x.cur
	x.cur = t
	x.invokeOn(t, fn, args)
	x.cur = saved
	return t
}

// invokeOn starts fn as the bottom frame of thread t.
func (x *Exec) invokeOn(t *Thread, fnv Value, args []Value) {
	cl, ok := fnv.(*Closure)
	if !ok || cl == nil {
		x.unsupported("go statement with non-closure target")
	}
	if cl.Native != nil {
		cl.Native(x, args)
		t.done = true
		return
	}
	name := fnName(cl.Fn)
	if nf := x.P.native(cl.Fn, name); nf != nil {
		x.unsupported("go statement calling native " + name)
	}
	target := cl.Fn
	if rep := x.P.replacement(cl.Fn, name); rep != nil {
		target = rep
	}
	nf := x.newFrame(target)
	for i, p := range target.Params {
		nf.regs[nf.info.idx[p]] = args[i]
	}
	for i, fv := range target.FreeVars {
		nf.regs[nf.info.idx[fv]] = cl.Free[i]
	}
	nf.discard = true
	t.frames = append(t.frames, nf)
}

// visibleNatives lists calls that are scheduling points.
var visibleNatives = map[string]bool{
	"(*sync.Mutex).Lock": true, "(*sync.Mutex).Unlock": true, "(*sync.Mutex).TryLock": true,
	"(*sync.RWMutex).Lock": true, "(*sync.RWMutex).Unlock": true, "(*sync.RWMutex).RLock": true, "(*sync.RWMutex).RUnlock": true,
	"sync/atomic.AddInt32": true, "sync/atomic.AddInt64": true, "sync/atomic.LoadInt32": true, "sync/atomic.LoadInt64": true,
	"sync/atomic.StoreInt32": true, "sync/atomic.StoreInt64": true, "sync/atomic.CompareAndSwapInt32": true, "sync/atomic.CompareAndSwapInt64": true,
	"sync/atomic.LoadUint32": true, "sync/atomic.StoreUint32": true, "sync/atomic.AddUint32": true, "sync/atomic.CompareAndSwapUint32": true,
	"sync/atomic.LoadUint64": true, "sync/atomic.StoreUint64": true, "sync/atomic.AddUint64": true,
	"(*sync/atomic.Value).Load": true, "(*sync/atomic.Value).Store": true, "(*sync/atomic.Value).CompareAndSwap": true,
	"(*sync/atomic.Value).Swap": true,
}

func (x *Exec) isVisible(f *Frame, instr ssa.Instruction) bool {
	switch in := instr.(type) {
	case *ssa.Send, *ssa.Select, *ssa.Go:
		return true
	case *ssa.UnOp:
		return in.Op == token.ARROW
	case *ssa.Call:
		if b, ok := in.Call.Value.(*ssa.Builtin); ok {
			return b.Name() == "close"
		}
		if fn := in.Call.StaticCallee(); fn != nil {
			name := fnName(fn)
			if visibleNatives[name] {
				if x.P.Cfg.InvisibleAtomics && len(name) > 11 && name[:11] == "sync/atomic" {
					return false
				}
				return true
			}
			if fn.Pkg == x.P.Target && (fn.Name() == "vYield" || fn.Name() == "vStep" || fn.Name() == "vWaitOthers" || fn.Name() == "vSettle") {
				return true
			}
		}
	}
	return false
}

func (x *Exec) enabled(t *Thread) bool {
	if t.done {
		return false
	}
	if t.isEnv && x.P.Cfg.PromptClock {
		// discrete-event time: a timer fires only when no goroutine can run
		for _, o := range x.threads {
			if !o.isEnv && !o.done && (o.blocked == nil || o.blocked()) {
				return false
			}
		}
		// with constant due times only an earliest armed timer can fire next
		var me *timerObj
		for _, tm := range x.timers {
			if tm.th == t {
				me = tm
			}
		}
		if me != nil && me.due.IsConst() {
			for _, tm := range x.timers {
				if tm != me && tm.armed && tm.due.IsConst() && tm.due.Val < me.due.Val {
					return false
				}
			}
		}
	}
	if t.blocked != nil {
		if t.blocked() {
			return true
		}
		return false
	}
	return true
}

// schedule is called when thread t is about to execute a visible operation.
// It picks the thread to run next (possibly t) and sets x.cur / x.granted.
func (x *Exec) schedule(t *Thread) {
	var opts []*Thread
	atYield := x.isYield(t)
	budget := atYield || x.P.Cfg.Preemptions < 0 || x.preempt < x.P.Cfg.Preemptions
	tEnabled := x.enabled(t)
	for _, o := range x.threads {
		if o == t {
			if tEnabled {
				opts = append(opts, o)
			}
			continue
		}
		if !x.enabled(o) {
			continue
		}
		if tEnabled && !budget {
			continue
		}
		opts = append(opts, o)
	}
	if len(opts) == 0 {
		x.deadlock()
	}
	// keep the current thread first so that the first explored schedule has no preemption
	idx := 0
	if len(opts) > 1 {
		idx = x.decide(len(opts), nil)
	}
	nt := opts[idx]
	if nt != t && tEnabled && !atYield {
		x.preempt++
	}
	if nt.blocked != nil {
		nt.blocked = nil
		nt.why = ""
	}
	x.cur = nt
	x.granted = nt
}

// isYield reports whether thread t is about to execute a cooperative vYield() (switching there is free).
func (x *Exec) isYield(t *Thread) bool {
	if len(t.frames) == 0 {
		return false
	}
	f := x.top(t)
	if c, ok := f.block.Instrs[f.ip].(*ssa.Call); ok {
		if fn := c.Call.StaticCallee(); fn != nil && fn.Pkg == x.P.Target && fn.Name() == "vYield" {
			return true
		}
	}
	return false
}

// switchAway is called when the current thread cannot continue (done or blocked).
func (x *Exec) switchAway() {
	t := x.cur
	if t.done && t == x.threads[0] {
		x.end("done", "")
	}
	var opts []*Thread
	for _, o := range x.threads {
		if x.enabled(o) {
			opts = append(opts, o)
		}
	}
	if len(opts) == 0 {
		x.deadlock()
	}
	idx := 0
	if len(opts) > 1 {
		idx = x.decide(len(opts), nil)
	}
	nt := opts[idx]
	nt.blocked = nil
	nt.why = ""
	x.cur = nt
	x.granted = nt
}

func (x *Exec) deadlock() {
	msg := "deadlock: no runnable thread;"
	for _, o := range x.threads {
		if !o.done {
			msg += fmt.Sprintf(" [%s#%d blocked on %s]", o.name, o.id, o.why)
		}
	}
	if x.P.Cfg.DeadlockOK {
		x.end("done", msg)
	}
	x.violate("deadlock", msg, nil)
}

func (x *Exec) block(t *Thread, why string, ready func() bool) {
	t.blocked = ready
	t.why = why
}

// ---------------------------------------------------------------------
// channels

func (x *Exec) chanClose(ch *ChanObj) {
	if ch == nil {
		x.goPanic("close of nil channel")
	}
	if ch.Closed {
		x.goPanic("close of closed channel")
	}
	ch.Closed = true
	x.seqNo++
}

func chanCanRecv(ch *ChanObj) bool {
	return ch != nil && (len(ch.Buf) > 0 || ch.Closed || ch.SlotFull)
}

func (x *Exec) chanCanSend(ch *ChanObj) bool {
	if ch == nil {
		return false
	}
	if ch.Closed {
		return true // will panic
	}
	if ch.Cap > 0 {
		return len(ch.Buf) < ch.Cap
	}
	// unbuffered: a receiver must be waiting
	for _, o := range x.threads {
		if o != x.cur && !o.done && o.blocked != nil && o.why == fmt.Sprintf("recv ch%d", ch.ID) {
			return !ch.SlotFull
		}
	}
	return false
}

func (x *Exec) doRecv(ch *ChanObj) (Value, bool) {
	x.seqNo++
	if len(ch.Buf) > 0 {
		v := ch.Buf[0]
		ch.Buf = ch.Buf[1:]
		return v, true
	}
	if ch.SlotFull {
		v := ch.Slot
		ch.SlotFull = false
		ch.Slot = nil
		return v, true
	}
	return x.zero(ch.Elem), false
}

func (x *Exec) execRecv(t *Thread, f *Frame, in *ssa.UnOp, chv Value) {
	ch := chv.(*ChanObj)
	if ch == nil {
		x.block(t, "recv nil chan", func() bool { return false })
		return
	}
	if !chanCanRecv(ch) {
		x.block(t, fmt.Sprintf("recv ch%d", ch.ID), func() bool { return chanCanRecv(ch) })
		return
	}
	v, ok := x.doRecv(ch)
	if in.CommaOk {
		x.set(f, in, Tuple{v, x.F.Bool(ok)})
	} else {
		x.set(f, in, v)
	}
	f.ip++
}

func (x *Exec) doSend(ch *ChanObj, v Value) {
	x.seqNo++
	if ch.Closed {
		x.goPanic("send on closed channel")
	}
	if ch.Cap > 0 {
		ch.Buf = append(ch.Buf, v)
		return
	}
	ch.Slot = v
	ch.SlotFull = true
}

func (x *Exec) execSend(t *Thread, f *Frame, in *ssa.Send) {
	ch := x.get(f, in.Chan).(*ChanObj)
	if ch == nil {
		x.block(t, "send nil chan", func() bool { return false })
		return
	}
	if !x.chanCanSend(ch) {
		x.block(t, fmt.Sprintf("send ch%d", ch.ID), func() bool { return x.chanCanSend(ch) })
		return
	}
	x.doSend(ch, x.get(f, in.X))
	f.ip++
}

func (x *Exec) execSelect(t *Thread, f *Frame, in *ssa.Select) {
	type st struct {
		ch  *ChanObj
		dir types.ChanDir
		val Value
	}
	states := make([]st, len(in.States))
	var ready []int
	for i, s := range in.States {
		ch, _ := x.get(f, s.Chan).(*ChanObj)
		states[i] = st{ch: ch, dir: s.Dir}
		if s.Dir == types.SendOnly {
			states[i].val = x.get(f, s.Send)
			if x.chanCanSend(ch) {
				ready = append(ready, i)
			}
		} else if chanCanRecv(ch) {
			ready = append(ready, i)
		}
	}
	// result tuple: (index int, recvOk bool, r_0 T_0, ... ) for each receive state
	mk := func(idx int, recvOk bool, recvIdx int, recvVal Value) Tuple {
		tv := Tuple{x.F.BV(64, uint64(int64(idx))), x.F.Bool(recvOk)}
		for i, s := range in.States {
			if s.Dir == types.RecvOnly {
				et := s.Chan.Type().Underlying().(*types.Chan).Elem()
				if i == recvIdx {
					tv = append(tv, recvVal)
				} else {
					tv = append(tv, x.zero(et))
				}
			}
		}
		return tv
	}
	if len(ready) == 0 {
		if !in.Blocking {
			x.set(f, in, mk(-1, false, -1, nil))
			f.ip++
			return
		}
		why := "select"
		for _, s := range states {
			if s.ch != nil {
				why += fmt.Sprintf(" ch%d", s.ch.ID)
			}
		}
		x.block(t, why, func() bool {
			saved := x.cur
			x.cur = t
			defer func() { x.cur = saved }()
			for _, s := range states {
				if s.dir == types.SendOnly {
					if x.chanCanSend(s.ch) {
						return true
					}
				} else if chanCanRecv(s.ch) {
					return true
				}
			}
			return false
		})
		return
	}
	pick := ready[0]
	if len(ready) > 1 {
		pick = ready[x.decide(len(ready), nil)]
	}
	s := states[pick]
	if s.dir == types.SendOnly {
		x.doSend(s.ch, s.val)
		x.set(f, in, mk(pick, false, -1, nil))
	} else {
		v, ok := x.doRecv(s.ch)
		x.set(f, in, mk(pick, ok, pick, v))
	}
	f.ip++
}

// ---------------------------------------------------------------------
// mutexes and the lock-set check

func (x *Exec) mutexLock(t *Thread, m *Cell) bool {
	if owner := x.mutexOwn[m]; owner != nil {
		x.block(t, fmt.Sprintf("mutex c%d", m.ID), func() bool { return x.mutexOwn[m] == nil })
		return false
	}
	x.mutexOwn[m] = t
	return true
}

func (x *Exec) mutexUnlock(t *Thread, m *Cell) {
	if x.mutexOwn[m] == nil {
		x.goPanic("sync: unlock of unlocked mutex")
	}
	delete(x.mutexOwn, m)
	x.seqNo++
}

func (x *Exec) checkGuard(g *Cell, what string) {
	if x.inInit || x.cur == nil {
		return
	}
	// harness code (monitors) may inspect guarded state freely
	if len(x.cur.frames) > 0 && x.top(x.cur).harness {
		return
	}
	if x.mutexOwn[g] != x.cur {
		x.violate("lockset", fmt.Sprintf("guarded state accessed (%s) without holding its mutex at %s", what, x.lastPos), nil)
	}
}

func (x *Exec) guardTree(c *Cell, g *Cell) {
	if c == g {
		return
	}
	c.Guard = g
	for _, s := range c.Sub {
		x.guardTree(s, g)
	}
	if c.Sub == nil {
		if m, ok := c.V.(*MapObj); ok && m != nil {
			m.Guard = g
		}
	}
}
