//go:build verif

package timeout

import (
	"container/heap"
	"time"
)

// C12 / C13: timers.

const zzMaxD = int64(1) << 40

func zzHeapInvariant(msg string) {
	fs := *cc.futures
	for i := range fs {
		vAssert(fs[i] != nil, msg+": nil entry in the queue")
		vAssert(fs[i].idx == i, msg+": a queued future does not know its position")
		vAssert(fs[i].f != nil, msg+": a queued future lost its function")
		if i > 0 {
			vAssert(!fs[i].fireT.Before(fs[(i-1)/2].fireT), msg+": heap order violated (an earlier future is not at the top)")
		}
	}
}

// one add / cancel from an arbitrary queue satisfying the invariant
func zzC12HeapStep() {
	n := vConcrete(vRange("n", 0, vParam("N")))
	base := vNow()
	fs := make(futures, n)
	fired := make([]int, n+1)
	for i := range fs {
		i := i
		d := vInt64("fire")
		vAssume(d >= -zzMaxD && d <= zzMaxD)
		fs[i] = &future{f: func() { fired[i]++ }, fireT: base.Add(time.Duration(d)), idx: i}
		if i > 0 {
			vAssume(!fs[i].fireT.Before(fs[(i-1)/2].fireT))
		}
	}
	old := make([]*future, n)
	oldT := make([]time.Time, n)
	for i := range fs {
		old[i], oldT[i] = fs[i], fs[i].fireT
	}
	cc.futures = &fs
	cc.watchers = vConcrete(vRange("watchers", 1, 2))
	zzHeapInvariant("pre-state")
	removed := -1
	var added *future
	switch vChoose("op", 5) {
	case 4:
		// the worker takes the head (as in watcher()), afterwards the fired future is cancelled: no effect on others
		vAssume(n > 0)
		fu := heap.Pop(cc.futures).(*future)
		vAssert(fu == old[0], "the worker did not take the earliest future")
		removed = 0
		zzHeapInvariant("after the worker took the head")
		fu.Cancel()
		fu.Cancel()
	case 0:
		d := vInt64("delay")
		vAssume(d >= -zzMaxD && d <= zzMaxD)
		t0 := time.Now()
		fu := Call(func() { fired[n]++ }, time.Duration(d)).(*future)
		t1 := time.Now()
		vAssert(!fu.fireT.Before(t0.Add(time.Duration(d))) && !t1.Add(time.Duration(d)).Before(fu.fireT), "fire time is not call time + delay")
		vAssert(fu.idx >= 0 && fu.idx <= n && (*cc.futures)[fu.idx] == fu, "Call did not queue the future")
		vAssert(len(cc.wakeCh) >= 1, "Call with a sleeping worker did not leave a wake-up token")
		added = fu
	case 1:
		vAssume(n > 0)
		p := vChoose("pos", n)
		fu := old[p]
		fu.Cancel()
		vAssert(len(cc.wakeCh) >= 1, "Cancel with a sleeping worker did not leave a wake-up token")
		removed = p
		fu.Cancel() // a second cancel changes nothing
		vAssert(len(*cc.futures) == n-1, "cancelling twice removed another future")
	case 2:
		// cancel of a future that is not queued (already fired or cancelled), and of VoidFuture
		fu := &future{idx: -1, fireT: base}
		fu.Cancel()
		VoidFuture.Cancel()
	case 3:
		fu := Call(nil, time.Duration(vInt64("delay")&0xffff)).(*future)
		vAssert(fu.idx == -1, "Call(nil) queued a future")
		fu.Cancel()
	}
	vReach("op-done")
	// every other future keeps its membership, fire time and function
	want := n
	if removed >= 0 {
		want--
	}
	if added != nil {
		want++
	}
	now := *cc.futures
	vAssert(len(now) == want, "queue length after the operation")
	for i := range old {
		if i == removed {
			continue
		}
		fu := old[i]
		vAssert(fu.idx >= 0 && fu.idx < len(now) && now[fu.idx] == fu, "another future lost its place in the queue")
		vAssert(fu.fireT.Equal(oldT[i]), "another future's fire time changed")
		vAssert(fu.f != nil, "another future lost its function")
	}
	zzHeapInvariant("post-state")
	for i := range fired {
		vAssert(fired[i] == 0, "a function was started by add/cancel")
	}
}

type zzCallRec struct {
	fu          Future
	due         time.Time
	started     int
	cancelEarly bool
	cancelled   bool
	done        chan struct{}
}

// real worker goroutines under the engine's scheduler, symbolic clock, timers as environment
func zzC12Sched() {
	NC := vParam("NC")
	idle := vInt64("idle")
	vAssume(idle >= 1 && idle <= zzMaxD)
	cc.idleTimeout = time.Duration(idle)
	cc.maxWorkers = vConcrete(vRange("maxWorkers", vParam("MWMIN"), vParam("MW")))
	vGuardedBy(cc.futures, &cc.lock)
	vGuardedBy(&cc.watchers, &cc.lock)
	recs := make([]*zzCallRec, NC)
	for i := 0; i < NC; i++ {
		r := &zzCallRec{done: make(chan struct{})}
		recs[i] = r
		d := vInt64("delay")
		vAssume(d >= -8 && d <= zzMaxD)
		t0 := time.Now()
		r.due = t0.Add(time.Duration(d))
		r.fu = Call(func() {
			t := time.Now()
			r.started++
			vAssert(r.started == 1, "a scheduled function was started more than once")
			vAssert(!t.Before(r.due), "a scheduled function was started earlier than its delay after the call")
			vAssert(!r.cancelEarly, "a function was started although Cancel had returned before it was due")
			vAssert(cc.watchers >= 1 && cc.watchers <= cc.maxWorkers, "worker count outside [1, maxWorkers] while a callback runs")
			close(r.done)
		}, time.Duration(d))
		// optionally cancel one of the futures scheduled so far (possibly repeatedly, possibly after it fired)
		if vParam("CANCEL") == 1 && vChoose("cancel", 2) == 1 {
			j := vChoose("which", i+1)
			recs[j].fu.Cancel()
			t := time.Now()
			recs[j].cancelled = true
			if t.Before(recs[j].due) && recs[j].started == 0 {
				recs[j].cancelEarly = true
			}
		}
	}
	vReach("script-done")
	// C13: every future that was not cancelled is eventually started (otherwise: deadlock)
	for _, r := range recs {
		if !r.cancelled {
			<-r.done
		}
	}
	vReach("all-fired")
	// C13: with nothing pending the package winds down to zero workers
	vWaitOthers()
	cc.lock.Lock()
	vAssert(cc.watchers == 0, "worker count is not zero after all workers exited")
	vAssert(cc.futures.Len() == 0, "futures left in the queue at quiescence")
	cc.lock.Unlock()
	for _, r := range recs {
		vAssert(r.started <= 1, "a scheduled function was started more than once")
		if r.cancelEarly {
			vAssert(r.started == 0, "a function cancelled before it was due was started")
		}
		if !r.cancelled {
			vAssert(r.started == 1, "a live future never fired")
		}
	}
	// and it starts up again on the next Call
	if vParam("RESTART") == 1 {
		again := make(chan struct{})
		Call(func() { close(again) }, time.Duration(1))
		<-again
	}
	vReach("restarted")
}

// C13: wind-down. A worker with nothing to do returns after at most two idle timer expiries and the worker
// count drops to zero; a Call with no worker alive starts exactly one.
func zzC13WindDown() {
	idle := vInt64("idle")
	vAssume(idle >= 1 && idle <= zzMaxD)
	cc.idleTimeout = time.Duration(idle)
	cc.maxWorkers = []int{1, 2, 10}[vChoose("maxWorkers", 3)]
	vAssert(cc.watchers == 0 && cc.futures.Len() == 0, "package does not start idle")
	fired := make(chan struct{})
	d := vInt64("delay")
	vAssume(d >= -8 && d <= zzMaxD)
	Call(func() {
		vAssert(cc.watchers == 1, "a Call with no worker alive must start exactly one worker")
		close(fired)
	}, time.Duration(d))
	<-fired
	vReach("fired")
	vWaitOthers()
	vAssert(cc.watchers == 0, "worker count is not zero after the idle worker exited")
	vReach("wound-down")
	// and it starts up again on the next Call
	again := make(chan struct{})
	Call(func() {
		vAssert(cc.watchers == 1, "a Call after wind-down must start exactly one worker")
		close(again)
	}, time.Duration(d))
	<-again
	vReach("restarted")
}

// C13: a short delay scheduled while the dispatcher sleeps towards a distant one is not served late.
// Prompt environment: time passes only when a timer fires, and a timer fires exactly when due (+1 ns).
func zzC13Prompt() {
	cc.idleTimeout = time.Duration(zzMaxD)
	cc.maxWorkers = []int{1, 2}[vChoose("maxWorkers", 2)]
	far := vInt64("far")
	near := vInt64("near")
	vAssume(near >= 0 && near <= zzMaxD && far >= 0 && far <= zzMaxD)
	type rec struct {
		due  time.Time
		done chan struct{}
	}
	mk := func(d int64) *rec {
		r := &rec{due: time.Now().Add(time.Duration(d)), done: make(chan struct{})}
		Call(func() {
			late := time.Now().Sub(r.due)
			vAssert(late >= 0, "started early")
			vAssert(late <= 16, "a future was started much later than due although every timer fired on time and callbacks return at once")
			close(r.done)
		}, time.Duration(d))
		return r
	}
	if vParam("SCEN") == 1 {
		// a burst of two due futures brings up two workers, which then go idle; a short future scheduled then
		// must still be served on time (by whichever worker stays)
		cc.maxWorkers = 2
		cc.idleTimeout = time.Duration(1 << 30)
		p1, p2 := mk(0), mk(0)
		<-p1.done
		<-p2.done
		vSettle()
		vAssume(near <= 1<<20)
		c := mk(near)
		<-c.done
		vReach("all-fired")
		return
	}
	a := mk(far)
	vSettle() // the dispatcher is now asleep towards the first future
	b := mk(near)
	var c *rec
	if vChoose("burst", 2) == 1 {
		c = mk(near) // a burst: two futures due at the same instant
	}
	<-a.done
	<-b.done
	if c != nil {
		<-c.done
	}
	vReach("all-fired")
}

// C12: the worker loop under arbitrary interference. The real watcher runs as a goroutine; every time it is
// parked the shared queue is replaced by a fresh arbitrary one (any number of other callers and workers may have
// acted meanwhile), the clock moves on, and either its timer fires or a wake-up token arrives. Whatever it
// starts must be due under the lock at that moment and must be started once.
func zzC12WatcherHavoc() {
	cc.idleTimeout = time.Duration([]int64{zzMaxD, 1}[vChoose("idle", vParam("IDLES"))])
	cc.maxWorkers = 2
	cc.watchers = 2 // another worker exists: this one may retire, and no helper is spawned
	started := 0
	havoc := func() {
		n := vChoose("queued", vParam("QMAX")+1)
		fs := make(futures, n)
		base := time.Now()
		for i := range fs {
			d := vInt64("fire")
			vAssume(d >= -zzMaxD && d <= zzMaxD)
			fu := &future{fireT: base.Add(time.Duration(d)), idx: i}
			cnt := 0
			fu.f = func() {
				cnt++
				started++
				vAssert(cnt == 1, "a function was started twice")
				vAssert(!time.Now().Before(fu.fireT), "a function was started before it was due")
			}
			fs[i] = fu
			if i > 0 {
				vAssume(!fs[i].fireT.Before(fs[(i-1)/2].fireT))
			}
		}
		cc.futures = &fs
	}
	havoc()
	exited := false
	vSpawn("worker", func() {
		cc.watcher()
		exited = true
	})
	K := vParam("K")
	for round := 0; round < K; round++ {
		vSettle() // the worker is parked in its select (or has retired)
		if exited {
			break
		}
		cc.lock.Lock()
		havoc()
		if cc.watchers < 2 {
			cc.watchers = 2
		}
		cc.lock.Unlock()
		if vChoose("wake", 2) == 1 {
			cc.notifyWatcher()
		}
	}
	vSettle() // let the worker act on the last interference
	vReach("rounds-done")
}
