//go:build verif

package timeout

import (
	"container/heap"
	"time"
)

// C12 / C13: timers.

const zzMaxD = int64(1) << 40

func zzHeapInvariant(msg string) {
	fs := *cc.futures
	for i := range fs {
		vAssert(fs[i] != nil, msg+": nil entry in the queue")
		vAssert(fs[i].idx == i, msg+": a queued future does not know its position")
		vAssert(fs[i].f != nil, msg+": a queued future lost its function")
		if i > 0 {
			vAssert(!fs[i].fireT.Before(fs[(i-1)/2].fireT), msg+": heap order violated (an earlier future is not at the top)")
		}
	}
}

// one add / cancel from an arbitrary queue satisfying the invariant
func zzC12HeapStep() {
	n := vConcrete(vRange("n", 0, vParam("N")))
	base := vNow()
	fs := make(futures, n)
	fired := make([]int, n+1)
	for i := range fs {
		i := i
		d := vInt64("fire")
		vAssume(d >= -zzMaxD) // any fire time from the recent past up to "never" (MaxInt64 ahead)
		fs[i] = &future{f: func() { fired[i]++ }, fireT: base.Add(time.Duration(d)), idx: i}
		if i > 0 {
			vAssume(!fs[i].fireT.Before(fs[(i-1)/2].fireT))
		}
	}
	old := make([]*future, n)
	oldT := make([]time.Time, n)
	for i := range fs {
		old[i], oldT[i] = fs[i], fs[i].fireT
	}
	cc.futures = &fs
	cc.watchers = vConcrete(vRange("watchers", 1, 2))
	zzHeapInvariant("pre-state")
	removed := -1
	var added *future
	switch vChoose("op", 5) {
	case 4:
		// the worker takes the head (as in watcher()), afterwards the fired future is cancelled: no effect on others
		vAssume(n > 0)
		fu := heap.Pop(cc.futures).(*future)
		vAssert(fu == old[0], "the worker did not take the earliest future")
		removed = 0
		zzHeapInvariant("after the worker took the head")
		fu.Cancel()
		fu.Cancel()
	case 0:
		d := vInt64("delay")
		vAssume(d >= -zzMaxD && d <= zzMaxD)
		t0 := time.Now()
		fu := Call(func() { fired[n]++ }, time.Duration(d)).(*future)
		t1 := time.Now()
		vAssert(!fu.fireT.Before(t0.Add(time.Duration(d))) && !t1.Add(time.Duration(d)).Before(fu.fireT), "fire time is not call time + delay")
		vAssert(fu.idx >= 0 && fu.idx <= n && (*cc.futures)[fu.idx] == fu, "Call did not queue the future")
		vAssert(len(cc.wakeCh) >= 1, "Call with a sleeping worker did not leave a wake-up token")
		added = fu
	case 1:
		vAssume(n > 0)
		p := vChoose("pos", n)
		fu := old[p]
		fu.Cancel()
		vAssert(len(cc.wakeCh) >= 1, "Cancel with a sleeping worker did not leave a wake-up token")
		removed = p
		fu.Cancel() // a second cancel changes nothing
		vAssert(len(*cc.futures) == n-1, "cancelling twice removed another future")
	case 2:
		// cancel of a future that is not queued (already fired or cancelled), and of VoidFuture
		fu := &future{idx: -1, fireT: base}
		fu.Cancel()
		VoidFuture.Cancel()
	case 3:
		fu := Call(nil, time.Duration(vInt64("delay")&0xffff)).(*future)
		vAssert(fu.idx == -1, "Call(nil) queued a future")
		fu.Cancel()
	}
	vReach("op-done")
	// every other future keeps its membership, fire time and function
	want := n
	if removed >= 0 {
		want--
	}
	if added != nil {
		want++
	}
	now := *cc.futures
	vAssert(len(now) == want, "queue length after the operation")
	for i := range old {
		if i == removed {
			continue
		}
		fu := old[i]
		vAssert(fu.idx >= 0 && fu.idx < len(now) && now[fu.idx] == fu, "another future lost its place in the queue")
		vAssert(fu.fireT.Equal(oldT[i]), "another future's fire time changed")
		vAssert(fu.f != nil, "another future lost its function")
	}
	zzHeapInvariant("post-state")
	for i := range fired {
		vAssert(fired[i] == 0, "a function was started by add/cancel")
	}
}

// C12: the worker loop under arbitrary interference. The real watcher runs as a goroutine; every time it is
// parked the shared queue is replaced by a fresh arbitrary one (any number of other callers and workers may have
// acted meanwhile), the clock moves on, and either its timer fires or a wake-up token arrives. Whatever it
// starts must be due under the lock at that moment and must be started once.
func zzC12WatcherHavoc() {
	cc.idleTimeout = time.Duration([]int64{zzMaxD, 1}[vChoose("idle", vParam("IDLES"))])
	cc.maxWorkers = 2
	cc.watchers = 2 // another worker exists: this one may retire, and no helper is spawned
	started := 0
	havoc := func() {
		n := vChoose("queued", vParam("QMAX")+1)
		fs := make(futures, n)
		base := time.Now()
		for i := range fs {
			d := vInt64("fire")
			vAssume(d >= -zzMaxD && d <= zzMaxD)
			fu := &future{fireT: base.Add(time.Duration(d)), idx: i}
			cnt := 0
			fu.f = func() {
				cnt++
				started++
				vAssert(cnt == 1, "a function was started twice")
				vAssert(!time.Now().Before(fu.fireT), "a function was started before it was due")
			}
			fs[i] = fu
			if i > 0 {
				vAssume(!fs[i].fireT.Before(fs[(i-1)/2].fireT))
			}
		}
		cc.futures = &fs
	}
	havoc()
	exited := false
	vSpawn("worker", func() {
		cc.watcher()
		exited = true
	})
	K := vParam("K")
	for round := 0; round < K; round++ {
		vSettle() // the worker is parked in its select (or has retired)
		if exited {
			break
		}
		cc.lock.Lock()
		if vParam("KEEP") == 1 && vChoose("keep", 2) == 1 {
			// nobody touched the queue: the worker meets the very future again it armed its timer for
		} else {
			havoc()
		}
		if cc.watchers < 2 {
			cc.watchers = 2
		}
		cc.lock.Unlock()
		if vChoose("wake", 2) == 1 {
			cc.notifyWatcher()
		}
	}
	vSettle() // let the worker act on the last interference
	vReach("rounds-done")
}
