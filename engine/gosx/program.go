package gosx

import (
	"fmt"
	"go/token"
	"go/types"
	"os"
	"path/filepath"
	"regexp"
	"sort"
	"strings"
	"math/rand"
	"sync"
	"sync/atomic"
	"time"

	"golang.org/x/tools/go/packages"
	"golang.org/x/tools/go/ssa"
	"golang.org/x/tools/go/ssa/ssautil"
)

var pkgClauseRe = regexp.MustCompile(`(?m)^package\s+(\w+)`)

type Config struct {
	MaxSteps         int
	ConcretizeLimit  int
	SymIndexLimit    int
	MaxAlloc         int
	Preemptions      int
	InvisibleAtomics bool
	DeadlockOK       bool
	PoolAdversarial  bool
	FixedClock       bool
	PromptClock      bool
	MapReverse       bool
	Params           map[string]int
	Stubs            map[string]string
	MaxPaths         int
	MaxViolations    int
	Workers          int
	SolverKind       string
	SolverTimeoutMs  int
	SampleModels     int
	CrossSolver      string
	CrossEvery       int
	Fallback         string
	Seed             int
	Unwind           int
}

type Program struct {
	Prog         *ssa.Program
	Target       *ssa.Package
	Fset         *token.FileSet
	HarnessFiles map[string]bool
	ModulePath   string
	Cfg          Config
	replCache    sync.Map
	LoadTime     time.Duration
	PkgCount     int
	doneCount    int64
	obligN       int64
	crossN       int64
	crossUnknown int64
}

// Load loads package pkgPath (relative to repoDir, e.g. "./xbinary") with harness files overlaid into its directory.
func Load(repoDir, pkgPath string, harness map[string]string, workDir string) (*Program, error) {
	start := time.Now()
	overlay := map[string][]byte{}
	hf := map[string]bool{}
	pkgDir := filepath.Join(repoDir, pkgPath)
	// package name for templated shim files
	pkgName := ""
	if ents, err := os.ReadDir(pkgDir); err == nil {
		for _, e := range ents {
			if strings.HasSuffix(e.Name(), ".go") && !strings.HasSuffix(e.Name(), "_test.go") {
				if b, err := os.ReadFile(filepath.Join(pkgDir, e.Name())); err == nil {
					if m := pkgClauseRe.FindSubmatch(b); m != nil {
						pkgName = string(m[1])
						break
					}
				}
			}
		}
	}
	for virt, real := range harness {
		data, err := os.ReadFile(real)
		if err != nil {
			return nil, err
		}
		if pkgName != "" {
			data = []byte(strings.Replace(string(data), "package PKGNAME", "package "+pkgName, 1))
		}
		dst := filepath.Join(pkgDir, virt)
		if strings.HasPrefix(virt, "/") {
			// repo-relative path: file overlaid into another package
			dst = filepath.Join(repoDir, virt[1:])
		}
		overlay[dst] = data
		hf[dst] = true
	}
	// private copy of go.mod/go.sum so that nothing under repoDir is ever rewritten
	if err := os.MkdirAll(workDir, 0o755); err != nil {
		return nil, err
	}
	for _, n := range []string{"go.mod", "go.sum"} {
		b, err := os.ReadFile(filepath.Join(repoDir, n))
		if err != nil {
			return nil, err
		}
		if err := os.WriteFile(filepath.Join(workDir, n), b, 0o644); err != nil {
			return nil, err
		}
	}
	env := append(os.Environ(), "GOFLAGS=-mod=mod", "GOPROXY=off", "GOSUMDB=off", "GOTOOLCHAIN=local", "GOWORK=off")
	cfg := &packages.Config{
		Mode:       packages.LoadAllSyntax | packages.NeedModule,
		Dir:        repoDir,
		BuildFlags: []string{"-tags=verif", "-modfile=" + filepath.Join(workDir, "go.mod")},
		Overlay:    overlay,
		Env:        env,
		Fset:       token.NewFileSet(),
	}
	pkgs, err := packages.Load(cfg, pkgPath)
	if err != nil {
		return nil, err
	}
	var errs []string
	packages.Visit(pkgs, nil, func(p *packages.Package) {
		for _, e := range p.Errors {
			errs = append(errs, e.Error())
		}
	})
	if len(errs) > 0 {
		return nil, fmt.Errorf("package load errors:\n%s", strings.Join(errs, "\n"))
	}
	prog, spkgs := ssautil.AllPackages(pkgs, ssa.InstantiateGenerics)
	prog.Build()
	p := &Program{Prog: prog, Target: spkgs[0], Fset: cfg.Fset, HarnessFiles: hf}
	if pkgs[0].Module != nil {
		p.ModulePath = pkgs[0].Module.Path
	}
	n := 0
	packages.Visit(pkgs, nil, func(*packages.Package) { n++ })
	p.PkgCount = n
	p.LoadTime = time.Since(start)
	return p, nil
}

func (c *Config) Defaults() {
	if c.MaxSteps == 0 {
		c.MaxSteps = 2000000
	}
	if c.Unwind == 0 {
		c.Unwind = 64
	}
	if c.SymIndexLimit == 0 {
		c.SymIndexLimit = 64
	}
	if c.MaxAlloc == 0 {
		c.MaxAlloc = 1 << 20
	}
	if c.Params == nil {
		c.Params = map[string]int{}
	}
	if c.Stubs == nil {
		c.Stubs = map[string]string{}
	}
}

func (p *Program) isRepoPkg(pkg *ssa.Package) bool {
	if pkg == nil || pkg.Pkg == nil {
		return false
	}
	return pkg.Pkg.Path() == p.ModulePath || strings.HasPrefix(pkg.Pkg.Path(), p.ModulePath+"/")
}

// foreign error sentinels: canonical name and message
var errorSentinels = map[string][2]string{
	"os.ErrInvalid":                 {"internal/oserror.ErrInvalid", "invalid argument"},
	"io/fs.ErrInvalid":              {"internal/oserror.ErrInvalid", "invalid argument"},
	"internal/oserror.ErrInvalid":   {"internal/oserror.ErrInvalid", "invalid argument"},
	"os.ErrPermission":              {"internal/oserror.ErrPermission", "permission denied"},
	"io/fs.ErrPermission":           {"internal/oserror.ErrPermission", "permission denied"},
	"internal/oserror.ErrPermission": {"internal/oserror.ErrPermission", "permission denied"},
	"os.ErrExist":                   {"internal/oserror.ErrExist", "file already exists"},
	"io/fs.ErrExist":                {"internal/oserror.ErrExist", "file already exists"},
	"internal/oserror.ErrExist":     {"internal/oserror.ErrExist", "file already exists"},
	"os.ErrNotExist":                {"internal/oserror.ErrNotExist", "file does not exist"},
	"io/fs.ErrNotExist":             {"internal/oserror.ErrNotExist", "file does not exist"},
	"internal/oserror.ErrNotExist":  {"internal/oserror.ErrNotExist", "file does not exist"},
	"os.ErrClosed":                  {"internal/oserror.ErrClosed", "file already closed"},
	"io/fs.ErrClosed":               {"internal/oserror.ErrClosed", "file already closed"},
	"internal/oserror.ErrClosed":    {"internal/oserror.ErrClosed", "file already closed"},
	"io.EOF":                        {"io.EOF", "EOF"},
	"io.ErrUnexpectedEOF":           {"io.ErrUnexpectedEOF", "unexpected EOF"},
	"io.ErrShortWrite":              {"io.ErrShortWrite", "short write"},
	"context.Canceled":              {"context.Canceled", "context canceled"},
	"github.com/go-redis/redis/v8.TxFailedErr": {"redis.TxFailedErr", "redis: transaction failed"},
}

func (x *Exec) initForeignGlobal(g *ssa.Global, c *Cell) {
	if x.P.isRepoPkg(g.Pkg) {
		return
	}
	elem := g.Type().(*types.Pointer).Elem()
	if !types.Identical(elem, types.Universe.Lookup("error").Type()) {
		return
	}
	name := g.String()
	canon, msg := name, name
	if s, ok := errorSentinels[name]; ok {
		canon, msg = s[0], s[1]
	}
	if iv, ok := x.errObjs[canon]; ok {
		c.V = iv
		return
	}
	iv := x.newErrorString(msg)
	x.errObjs[canon] = iv
	c.V = iv
}

// ---------------------------------------------------------------------
// exploration

type Result struct {
	Entry        string
	Paths        int
	Infeasible   int
	Blocks       int64
	Steps        int64
	Violations   []*Violation
	Inconclusive []string
	Reached      map[string]bool
	Asserts      map[string]bool
	Queries      int
	SatN         int
	UnsatN       int
	UnknownN     int
	SolverTime   time.Duration
	Wall         time.Duration
	Funcs        map[string]bool
	Samples      []string
	Budget       bool
	Rescued      int
	CrossChecked int
	CrossUnknown int
	Models       [][]NDValue
}

type workQueue struct {
	mu      sync.Mutex
	cond    *sync.Cond
	items   [][]int
	pending int
	stop    bool
}

func (q *workQueue) push(items [][]int) {
	q.mu.Lock()
	q.items = append(q.items, items...)
	q.pending += len(items)
	q.mu.Unlock()
	q.cond.Broadcast()
}

func (q *workQueue) pop() ([]int, bool) {
	q.mu.Lock()
	defer q.mu.Unlock()
	for len(q.items) == 0 && q.pending > 0 && !q.stop {
		q.cond.Wait()
	}
	if q.stop || len(q.items) == 0 {
		return nil, false
	}
	it := q.items[len(q.items)-1]
	q.items = q.items[:len(q.items)-1]
	return it, true
}

func (q *workQueue) done() {
	q.mu.Lock()
	q.pending--
	fin := q.pending == 0
	q.mu.Unlock()
	if fin {
		q.cond.Broadcast()
	}
}

func (p *Program) RunEntry(entry string) *Result {
	start := time.Now()
	res := &Result{Entry: entry, Reached: map[string]bool{}, Asserts: map[string]bool{}, Funcs: map[string]bool{}}
	fn := p.Target.Func(entry)
	if fn == nil {
		res.Inconclusive = append(res.Inconclusive, "harness-build: entry function not found: "+entry)
		return res
	}
	q := &workQueue{}
	q.cond = sync.NewCond(&q.mu)
	q.push([][]int{{}})
	workers := p.Cfg.Workers
	if workers <= 0 {
		workers = 8
	}
	var mu sync.Mutex
	var wg sync.WaitGroup
	rng := rand.New(rand.NewSource(int64(p.Cfg.Seed) + 1))
	if os.Getenv("GOSX_PROGRESS") != "" {
		stopProg := make(chan struct{})
		defer close(stopProg)
		go func() {
			for {
				select {
				case <-stopProg:
					return
				case <-time.After(5 * time.Second):
					mu.Lock()
					q.mu.Lock()
					fmt.Fprintf(os.Stderr, "progress %s: paths=%d infeasible=%d queue=%d steps=%d viol=%d\n", entry, res.Paths, res.Infeasible, len(q.items), res.Steps, len(res.Violations))
					q.mu.Unlock()
					mu.Unlock()
				}
			}
		}()
	}
	atomic.StoreInt64(&p.doneCount, 0)
	atomic.StoreInt64(&p.crossN, 0)
	atomic.StoreInt64(&p.crossUnknown, 0)
	p.obligN = 0
	for w := 0; w < workers; w++ {
		wg.Add(1)
		go func() {
			defer wg.Done()
			kind := p.Cfg.SolverKind
			if kind == "" {
				kind = "z3"
			}
			tmo := p.Cfg.SolverTimeoutMs
			if tmo == 0 {
				tmo = 20000
			}
			s, err := NewSolver(kind, tmo)
			if err != nil {
				mu.Lock()
				res.Inconclusive = append(res.Inconclusive, "solver start: "+err.Error())
				mu.Unlock()
				return
			}
			defer s.Close()
			var cs *Solver
			getCS := func() *Solver {
				if p.Cfg.CrossSolver == "" {
					return nil
				}
				if cs == nil {
					cs, _ = NewSolver(p.Cfg.CrossSolver, 30000)
				}
				return cs
			}
			defer func() {
				if cs != nil {
					cs.Close()
				}
			}()
			var fb *Solver
			getFB := func() *Solver {
				if p.Cfg.Fallback == "" {
					return nil
				}
				if fb == nil {
					fb, _ = NewSolver(p.Cfg.Fallback, 120000)
				}
				return fb
			}
			defer func() {
				if fb != nil {
					mu.Lock()
					res.Queries += fb.Queries
					res.SolverTime += fb.Time
					res.Rescued += s.Rescued
					mu.Unlock()
					fb.Close()
				}
			}()
			for {
				prefix, ok := q.pop()
				if !ok {
					break
				}
				x, end := p.runPath(fn, prefix, s, getFB, getCS)
				mu.Lock()
				res.Paths++
				res.Blocks += int64(x.blocks)
				res.Steps += int64(x.steps)
				for k := range x.reached {
					res.Reached[k] = true
				}
				for k := range x.asserts {
					res.Asserts[k] = true
				}
				for k := range x.funcs {
					res.Funcs[k] = true
				}
				switch end.Kind {
				case "infeasible":
					res.Infeasible++
				case "violation":
					x.violation.Entry = entry
					res.Violations = append(res.Violations, x.violation)
				case "inconclusive":
					if len(res.Inconclusive) < 20 {
						res.Inconclusive = append(res.Inconclusive, end.Msg)
					}
				}
				if x.model != nil {
					n := p.Cfg.SampleModels
					if len(res.Models) < n {
						res.Models = append(res.Models, x.model)
					} else {
						res.Models[rng.Intn(n)] = x.model
					}
				}
				if len(res.Samples) < 6 && end.Kind == "done" && len(x.observed) > 0 {
					res.Samples = append(res.Samples, strings.Join(x.observed, " | "))
				}
				stop := false
				if p.Cfg.MaxPaths > 0 && res.Paths >= p.Cfg.MaxPaths {
					res.Budget = true
					stop = true
				}
				mv := p.Cfg.MaxViolations
				if mv == 0 {
					mv = 8
				}
				if len(res.Violations) >= mv || len(res.Inconclusive) >= 20 {
					stop = true
				}
				mu.Unlock()
				if stop {
					q.mu.Lock()
					q.stop = true
					q.mu.Unlock()
					q.cond.Broadcast()
				} else {
					q.push(x.newWork)
				}
				q.done()
			}
			mu.Lock()
			res.Queries += s.Queries
			res.SatN += s.SatN
			res.UnsatN += s.UnsatN
			res.UnknownN += s.UnknownN
			res.SolverTime += s.Time
			mu.Unlock()
		}()
	}
	wg.Wait()
	if res.Budget {
		res.Inconclusive = append(res.Inconclusive, fmt.Sprintf("budget: path limit %d reached", p.Cfg.MaxPaths))
	}
	sort.Slice(res.Violations, func(i, j int) bool { return len(res.Violations[i].Trace) < len(res.Violations[j].Trace) })
	res.Wall = time.Since(start)
	res.CrossChecked = int(atomic.LoadInt64(&p.crossN))
	res.CrossUnknown = int(atomic.LoadInt64(&p.crossUnknown))
	return res
}

func (p *Program) runPath(fn *ssa.Function, prefix []int, s *Solver, fb func() *Solver, cs func() *Solver) (x *Exec, end pathEnd) {
	x = &Exec{P: p, F: NewFactory(), S: s, prefix: prefix, fallback: fb, cross: cs,
		pcSet: map[*Term]bool{}, globals: map[*ssa.Global]*Cell{}, reached: map[string]bool{}, asserts: map[string]bool{},
		pools: map[*Cell]*poolState{}, mutexOwn: map[*Cell]*Thread{}, errObjs: map[string]Iface{}, closures: map[*ssa.Function]*Closure{},
		funcs: map[string]bool{}, mapRev: p.Cfg.MapReverse}
	s.BeginPath()
	defer s.EndPath()
	defer func() {
		if r := recover(); r != nil {
			if pe, ok := r.(pathEnd); ok {
				end = pe
				if pe.Kind == "done" && p.Cfg.SampleModels > 0 {
					i := atomic.AddInt64(&p.doneCount, 1)
					n := int64(p.Cfg.SampleModels)
					if i <= n || (i*7919+int64(p.Cfg.Seed))%(i/(3*n)+1) == 0 {
						x.sampleModel()
					}
				}
				return
			}
			if _, ok := r.(goPanicSignal); ok {
				end = pathEnd{"inconclusive", "internal: go panic outside step at " + x.lastPos}
				return
			}
			end = pathEnd{"inconclusive", fmt.Sprintf("internal error: %v at %s", r, x.lastPos)}
			if os.Getenv("GOSX_DEBUG") != "" {
				panic(r)
			}
		}
	}()
	main := &Thread{id: 0, name: "main", held: map[*Cell]int{}}
	x.threads = []*Thread{main}
	x.cur = main
	main.frames = []*Frame{x.newFrame(fn)}
	// package initialisers of repository packages run first (concretely)
	if initFn := p.Target.Func("init"); initFn != nil {
		x.inInit = true
		x.invoke(main, x.funcValue(initFn), nil, func(Value) (Value, bool) {
			x.inInit = false
			return nil, false
		}, false)
	}
	x.runLoop()
	return x, pathEnd{"done", ""}
}
