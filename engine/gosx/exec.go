package gosx

import (
	"fmt"
	"go/constant"
	"go/token"
	"go/types"
	"os"
	"sort"
	"strconv"
	"strings"
	"sync"
	"sync/atomic"
	"time"

	"golang.org/x/tools/go/ssa"
)

// pathEnd is the panic payload that terminates the current path.
type pathEnd struct {
	Kind string // "done", "infeasible", "violation", "inconclusive"
	Msg  string
}

type deferred struct {
	fn   Value
	args []Value
}

type Frame struct {
	fn        *ssa.Function
	info      *funcInfo
	regs      []Value
	block     *ssa.BasicBlock
	ip        int
	defers    []deferred
	unwinding bool
	discard   bool // result is dropped (deferred call, go)
	barrier   bool // mustPanic barrier
	onReturn  func(ret Value) (Value, bool)
	harness   bool
	symIf     map[*ssa.If]int
	results   Value // pending results while running defers during normal return (recover path)
	recovered bool
}

type Thread struct {
	id       int
	name     string
	frames   []*Frame
	done     bool
	blocked  func() bool
	why      string
	panicVal Value
	panicMsg string
	unwind   bool
	held     map[*Cell]int
	panicPkg string
	isEnv    bool
	native   *Closure
}

type funcInfo struct {
	idx     map[ssa.Value]int
	n       int
	harness bool
}

var funcInfoCache sync.Map
var traceOn = os.Getenv("GOSX_TRACE") != ""
var slowMs, _ = strconv.Atoi(os.Getenv("GOSX_SLOW"))

func getFuncInfo(fn *ssa.Function, harnessFiles map[string]bool, fset *token.FileSet) *funcInfo {
	if fi, ok := funcInfoCache.Load(fn); ok {
		return fi.(*funcInfo)
	}
	fi := &funcInfo{idx: map[ssa.Value]int{}}
	add := func(v ssa.Value) {
		if _, ok := fi.idx[v]; !ok {
			fi.idx[v] = fi.n
			fi.n++
		}
	}
	for _, p := range fn.Params {
		add(p)
	}
	for _, p := range fn.FreeVars {
		add(p)
	}
	for _, b := range fn.Blocks {
		for _, in := range b.Instrs {
			if v, ok := in.(ssa.Value); ok {
				add(v)
			}
		}
	}
	pos := fn.Pos()
	root := fn
	for root.Parent() != nil {
		root = root.Parent()
	}
	if !pos.IsValid() {
		pos = root.Pos()
	}
	if pos.IsValid() && fset != nil {
		fi.harness = harnessFiles[fset.Position(pos).Filename]
	}
	if strings.HasPrefix(root.Name(), "zz") {
		fi.harness = true
	}
	funcInfoCache.Store(fn, fi)
	return fi
}

type ndEntry struct {
	Name  string
	Kind  string // int, uint64, byte, bool, choose, bytes
	Terms []*Term
	W     int
	Conc  []uint64 // concrete values when chosen by decision
}

type decision struct {
	choice int
	n      int
}

// Exec is the per-path execution state.
type Exec struct {
	P       *Program
	F       *Factory
	S       *Solver
	pc      []*Term
	pcSet   map[*Term]bool
	prefix  []int
	trace   []int
	newWork [][]int

	threads []*Thread
	cur     *Thread
	granted *Thread
	nextTID int
	preempt int

	globals map[*ssa.Global]*Cell
	cellID  int
	objID   int

	ndLog    []ndEntry
	ndCount  int
	nowCount int
	clock    *Term
	observed []string

	blocks    int
	steps     int
	seqNo     int
	reached   map[string]bool
	asserts   map[string]bool
	knownHit  map[string]bool
	curKnown  []string
	pools     map[*Cell]*poolState
	mutexOwn  map[*Cell]*Thread
	constStrs map[string]Str
	timers    []*timerObj
	inInit    bool
	lastPos   string
	tokens    int
	errObjs   map[string]Iface
	closures  map[*ssa.Function]*Closure
	extra     map[string]interface{}
	violation *Violation
	mapRev    bool
	funcs     map[string]bool
	model     []NDValue
	pcUnchecked bool
	fallback  func() *Solver
	cross     func() *Solver
}

type Violation struct {
	Kind     string // assert, panic, deadlock, lockset
	Msg      string
	Pos      string
	Model    map[string]uint64
	ND       []NDValue
	Trace    []int
	Known    string
	Entry    string
	Observed []string
}

type NDValue struct {
	Name string   `json:"name"`
	Kind string   `json:"kind"`
	Vals []uint64 `json:"vals"`
}

func (x *Exec) end(kind, msg string) {
	panic(pathEnd{kind, msg})
}

func (x *Exec) unsupported(msg string) {
	x.end("inconclusive", "unsupported: "+msg+" at "+x.lastPos)
}

// ---------------------------------------------------------------------
// path condition and decisions

func (x *Exec) assume(c *Term) {
	if c.IsTrue() {
		return
	}
	if c.IsFalse() {
		x.end("infeasible", "")
	}
	if x.pcSet[c] {
		return
	}
	x.pcSet[c] = true
	x.pc = append(x.pc, c)
}

// known reports whether c is syntactically implied / refuted by the pc. 1 true, -1 false, 0 unknown
func (x *Exec) known(c *Term) int {
	if c.IsTrue() {
		return 1
	}
	if c.IsFalse() {
		return -1
	}
	if x.pcSet[c] {
		return 1
	}
	if x.pcSet[x.F.Not(c)] {
		return -1
	}
	return 0
}

// solve runs the primary solver and, on unknown, the fallback solver (fresh scope with the whole pc).
func (x *Exec) solve(extra *Term, vars []*Term) (SatResult, map[string]uint64) {
	r, m := x.S.Check(x.pc, extra, vars)
	if r != Unknown || x.fallback == nil {
		return r, m
	}
	fb := x.fallback()
	if fb == nil {
		return r, m
	}
	fb.BeginPath()
	r2, m2 := fb.Check(x.pc, extra, vars)
	fb.EndPath()
	if r2 != Unknown {
		x.S.UnknownN--
		x.S.Rescued++
	}
	return r2, m2
}

// crossCheck re-decides pc AND extra with a second, independent solver and compares the verdicts.
func (x *Exec) crossCheck(extra *Term) {
	r1, _ := x.solve(extra, nil)
	cs := x.cross()
	if cs == nil || r1 == Unknown {
		return
	}
	cs.BeginPath()
	r2, _ := cs.Check(x.pc, extra, nil)
	cs.EndPath()
	atomic.AddInt64(&x.P.crossN, 1)
	if r2 == Unknown {
		atomic.AddInt64(&x.P.crossUnknown, 1)
		return
	}
	if r1 != r2 {
		x.end("inconclusive", fmt.Sprintf("solver-disagreement: %s says %s, %s says %s at %s", x.S.Kind, r1, cs.Kind, r2, x.lastPos))
	}
}

func (x *Exec) check(extra *Term) SatResult {
	st := time.Now()
	r, _ := x.solve(extra, nil)
	if slowMs > 0 && time.Since(st) > time.Duration(slowMs)*time.Millisecond {
		fmt.Fprintf(os.Stderr, "SLOW %v %s at %s\n", time.Since(st), r, x.lastPos)
	}
	if r == Unknown {
		x.end("inconclusive", "solver unknown: "+x.S.LastErr)
	}
	return r
}

// replaying reports whether the next decision comes from the prefix.
func (x *Exec) replaying() bool { return len(x.trace) < len(x.prefix) }

// decide picks one of n options. feasible(i) is consulted only for fresh decisions.
// Every feasible alternative other than the first is queued.
func (x *Exec) decide(n int, feasible func(i int) bool) int {
	if x.replaying() {
		c := x.prefix[len(x.trace)]
		x.trace = append(x.trace, c)
		return c
	}
	first := -1
	pos := len(x.trace)
	for i := 0; i < n; i++ {
		if feasible != nil && !feasible(i) {
			continue
		}
		if first < 0 {
			first = i
			continue
		}
		alt := make([]int, pos+1)
		copy(alt, x.trace)
		alt[pos] = i
		x.newWork = append(x.newWork, alt)
	}
	if first < 0 {
		x.end("infeasible", "no feasible option")
	}
	x.trace = append(x.trace, first)
	return first
}

// branch decides a boolean condition, forking if both sides are feasible.
func (x *Exec) branch(c *Term) bool {
	switch x.known(c) {
	case 1:
		return true
	case -1:
		return false
	}
	nc := x.F.Not(c)
	firstUnsat := false
	ch := x.decide(2, func(i int) bool {
		if i == 0 {
			r := x.check(c) == Sat
			if r {
				x.pcUnchecked = false
			} else {
				firstUnsat = true
			}
			return r
		}
		// the pc is known satisfiable: if the true side is infeasible the false side must be feasible
		if firstUnsat && !x.pcUnchecked {
			return true
		}
		r := x.check(nc) == Sat
		if r {
			x.pcUnchecked = false
		}
		return r
	})
	if ch == 0 {
		x.assume(c)
		return true
	}
	x.assume(nc)
	return false
}

// concretize forks over all feasible values of t (which must be a bit-vector term) and returns the chosen one.
// At most limit values are enumerated.
func (x *Exec) concretize(t *Term, what string) uint64 {
	if t.IsConst() {
		return t.Val
	}
	limit := x.P.Cfg.ConcretizeLimit
	if limit == 0 {
		limit = 70000
	}
	for n := 0; ; n++ {
		if n > limit {
			x.end("inconclusive", "concretize: too many values for "+what)
		}
		var v uint64
		if x.replaying() {
			// decision: 0 = take the value stored next in the prefix, encoded as two entries
			c := x.prefix[len(x.trace)]
			x.trace = append(x.trace, c)
			if c == 1 {
				// "not this value" branch: value follows
				val := x.prefix[len(x.trace)]
				x.trace = append(x.trace, val)
				x.assume(x.F.Not(x.F.Eq(t, x.F.BV(t.W, uint64(val)))))
				continue
			}
			val := x.prefix[len(x.trace)]
			x.trace = append(x.trace, val)
			v = uint64(val)
			x.assume(x.F.Eq(t, x.F.BV(t.W, v)))
			return v
		}
		r, m := x.solve(nil, termVars(t))
		if r == Unknown {
			x.end("inconclusive", "solver unknown in concretize: "+x.S.LastErr)
		}
		if r == Unsat {
			x.end("infeasible", "")
		}
		v = t.Eval(m)
		eq := x.F.Eq(t, x.F.BV(t.W, v))
		// is another value possible?
		pos := len(x.trace)
		if x.check(x.F.Not(eq)) == Sat {
			alt := make([]int, pos+2)
			copy(alt, x.trace)
			alt[pos] = 1
			alt[pos+1] = int(v)
			x.newWork = append(x.newWork, alt)
		}
		x.trace = append(x.trace, 0, int(v))
		x.assume(eq)
		return v
	}
}

func termVars(t *Term) []*Term {
	seen := map[*Term]bool{}
	var out []*Term
	var walk func(t *Term)
	walk = func(t *Term) {
		if seen[t] {
			return
		}
		seen[t] = true
		if t.Op == OpVar {
			out = append(out, t)
		}
		for i := 0; i < t.N; i++ {
			walk(t.Args[i])
		}
	}
	walk(t)
	return out
}

// ---------------------------------------------------------------------
// violations and panics

func (x *Exec) pcVars() []*Term {
	seen := map[*Term]bool{}
	var out []*Term
	var walk func(t *Term)
	walk = func(t *Term) {
		if seen[t] {
			return
		}
		seen[t] = true
		if t.Op == OpVar {
			out = append(out, t)
		}
		for i := 0; i < t.N; i++ {
			walk(t.Args[i])
		}
	}
	for _, c := range x.pc {
		walk(c)
	}
	for _, e := range x.ndLog {
		for _, t := range e.Terms {
			walk(t)
		}
	}
	sort.Slice(out, func(i, j int) bool { return out[i].Name < out[j].Name })
	return out
}

// violate records a violation under the current pc (plus extra) and ends the path.
func (x *Exec) violate(kind, msg string, extra *Term) {
	vars := x.pcVars()
	if extra != nil {
		for _, v := range termVars(extra) {
			vars = append(vars, v)
		}
	}
	r, m := x.solve(extra, vars)
	if r == Unknown {
		x.end("inconclusive", "solver unknown at violation: "+x.S.LastErr)
	}
	if r == Unsat {
		x.end("infeasible", "")
	}
	if m == nil {
		m = map[string]uint64{}
	}
	v := &Violation{Kind: kind, Msg: msg, Pos: x.lastPos, Model: m, Trace: append([]int(nil), x.trace...), Observed: x.observed}
	v.ND = x.ndValues(m)
	if len(x.curKnown) > 0 {
		v.Known = x.curKnown[len(x.curKnown)-1]
	}
	x.violation = v
	x.end("violation", msg)
}

// sampleModel asks the solver for one assignment satisfying the path condition of a completed path.
func (x *Exec) sampleModel() {
	defer func() { recover() }()
	r, m := x.solve(nil, x.pcVars())
	if r != Sat {
		return
	}
	if m == nil {
		m = map[string]uint64{}
	}
	x.model = x.ndValues(m)
}

func (x *Exec) ndValues(m map[string]uint64) []NDValue {
	var out []NDValue
	for _, e := range x.ndLog {
		nv := NDValue{Name: e.Name, Kind: e.Kind}
		if e.Conc != nil {
			nv.Vals = e.Conc
		} else {
			for _, t := range e.Terms {
				nv.Vals = append(nv.Vals, t.Eval(m))
			}
		}
		if nv.Vals == nil {
			nv.Vals = []uint64{}
		}
		out = append(out, nv)
	}
	return out
}

// goPanic starts a Go-level panic on the current thread (it never returns normally).
func (x *Exec) goPanic(msg string) {
	panic(goPanicSignal{msg: msg})
}

type goPanicSignal struct {
	msg string
	val Value
}

// panicIf forks on cond; on the true side a Go panic starts.
func (x *Exec) panicIf(cond *Term, msg string) {
	if cond.IsFalse() {
		return
	}
	if x.branch(cond) {
		x.goPanic(msg)
	}
}

// ---------------------------------------------------------------------
// frames and registers

func (x *Exec) newFrame(fn *ssa.Function) *Frame {
	if len(fn.Blocks) == 0 {
		x.unsupported("function without body: " + fn.String())
	}
	fi := getFuncInfo(fn, x.P.HarnessFiles, x.P.Fset)
	f := &Frame{fn: fn, info: fi, regs: make([]Value, fi.n), block: fn.Blocks[0], harness: fi.harness}
	if !fi.harness {
		x.funcs[fnName(fn)] = true
	}
	return f
}

func (x *Exec) get(f *Frame, v ssa.Value) Value {
	switch c := v.(type) {
	case *ssa.Const:
		return x.constValue(c)
	case *ssa.Global:
		return Ptr{C: x.globalCell(c)}
	case *ssa.Function:
		return x.funcValue(c)
	case *ssa.Builtin:
		return c
	}
	i, ok := f.info.idx[v]
	if !ok {
		x.unsupported(fmt.Sprintf("unknown SSA value %s in %s", v.Name(), f.fn))
	}
	return f.regs[i]
}

func (x *Exec) set(f *Frame, v ssa.Value, val Value) {
	f.regs[f.info.idx[v]] = val
}

func (x *Exec) funcValue(fn *ssa.Function) *Closure {
	if c, ok := x.closures[fn]; ok {
		return c
	}
	c := &Closure{Fn: fn}
	x.closures[fn] = c
	return c
}

func (x *Exec) constValue(c *ssa.Const) Value {
	t := c.Type()
	if c.Value == nil {
		return x.zero(t)
	}
	switch u := t.Underlying().(type) {
	case *types.Basic:
		switch {
		case u.Info()&types.IsBoolean != 0:
			return x.F.Bool(constantBool(c))
		case u.Info()&types.IsInteger != 0:
			w, _, _ := intWidth(u)
			if constant.Sign(constant.ToInt(c.Value)) < 0 {
				return x.F.BV(w, uint64(c.Int64()))
			}
			return x.F.BV(w, c.Uint64())
		case u.Info()&types.IsString != 0:
			return Str{K: constantString(c)}
		case u.Info()&types.IsFloat != 0:
			return FloatVal{c.Float64()}
		}
	}
	x.unsupported("constant of type " + t.String())
	return nil
}

func (x *Exec) globalCell(g *ssa.Global) *Cell {
	if c, ok := x.globals[g]; ok {
		return c
	}
	elem := g.Type().(*types.Pointer).Elem()
	c := x.newCell(elem)
	c.Label = g.String()
	x.globals[g] = c
	x.initForeignGlobal(g, c)
	return c
}

// ---------------------------------------------------------------------
// main loop

func (x *Exec) top(t *Thread) *Frame { return t.frames[len(t.frames)-1] }

func (x *Exec) pushFrame(t *Thread, f *Frame) {
	if len(t.frames) > 400 {
		x.end("inconclusive", "call depth exceeded")
	}
	t.frames = append(t.frames, f)
}

func (x *Exec) runLoop() {
	for {
		t := x.cur
		if t.done || t.blocked != nil {
			x.switchAway()
			continue
		}
		if t.native != nil {
			t.native.Native(x, nil)
			t.done = true
			continue
		}
		if t.unwind {
			x.unwindStep(t)
			continue
		}
		f := x.top(t)
		instr := f.block.Instrs[f.ip]
		if len(x.threads) > 1 && x.isVisible(f, instr) {
			if x.granted == t {
				x.granted = nil
			} else {
				x.schedule(t)
				if x.cur != t {
					continue
				}
				x.granted = nil
			}
		}
		x.step(t, f, instr)
	}
}

func (x *Exec) step(t *Thread, f *Frame, instr ssa.Instruction) {
	x.steps++
	if x.steps > x.P.Cfg.MaxSteps {
		x.end("inconclusive", fmt.Sprintf("step budget exceeded (unwind) at %s", x.lastPos))
	}
	if p := instr.Pos(); p.IsValid() {
		x.lastPos = x.P.Fset.Position(p).String()
	}
	if traceOn {
		fmt.Fprintf(os.Stderr, "T%d %s b%d.%d: %s\n", t.id, f.fn.Name(), f.block.Index, f.ip, instr.String())
	}
	defer func() {
		if r := recover(); r != nil {
			if gp, ok := r.(goPanicSignal); ok {
				t.unwind = true
				t.panicMsg = gp.msg
				t.panicPkg = ""
				if f.fn.Pkg != nil && f.fn.Pkg.Pkg != nil {
					t.panicPkg = f.fn.Pkg.Pkg.Path()
				}
				t.panicVal = gp.val
				if t.panicVal == nil {
					t.panicVal = Iface{T: types.Typ[types.String], V: Str{K: gp.msg}}
				}
				return
			}
			panic(r)
		}
	}()
	x.execInstr(t, f, instr)
}

// finishCall delivers a call result into the caller frame and advances it.
func (x *Exec) finishCall(t *Thread, ret Value) {
	if len(t.frames) == 0 {
		t.done = true
		if t == x.threads[0] {
			x.end("done", "")
		}
		return
	}
	f := x.top(t)
	instr := f.block.Instrs[f.ip]
	switch in := instr.(type) {
	case *ssa.Call:
		x.set(f, in, ret)
		f.ip++
	case *ssa.RunDefers:
		// re-execute RunDefers for the next deferred call
	case *ssa.Defer, *ssa.Go:
		f.ip++
	default:
		// return / panic unwinding: handled by unwindStep
	}
}

func (x *Exec) doReturn(t *Thread, f *Frame, ret Value) {
	t.frames = t.frames[:len(t.frames)-1]
	if f.onReturn != nil {
		var deliver bool
		ret, deliver = f.onReturn(ret)
		if !deliver {
			return
		}
	}
	if f.discard {
		if len(t.frames) == 0 {
			t.done = true
			if t == x.threads[0] {
				x.end("done", "")
			}
			return
		}
		cf := x.top(t)
		if cf.unwinding {
			return
		}
		switch cf.block.Instrs[cf.ip].(type) {
		case *ssa.RunDefers:
		default:
			cf.ip++
		}
		return
	}
	x.finishCall(t, ret)
}

// unwindStep performs one step of panic unwinding on thread t.
func (x *Exec) unwindStep(t *Thread) {
	if len(t.frames) == 0 {
		x.uncaughtPanic(t)
		return
	}
	f := x.top(t)
	if len(f.defers) > 0 {
		d := f.defers[len(f.defers)-1]
		f.defers = f.defers[:len(f.defers)-1]
		f.unwinding = true
		t.unwind = false
		// run the deferred call; when it returns control comes back here via runLoop (cf.unwinding)
		x.invoke(t, d.fn, d.args, func(ret Value) (Value, bool) {
			if t.panicVal != nil {
				t.unwind = true
			} else {
				// recovered: return from f normally
				x.recoverReturn(t, f)
			}
			return nil, false
		}, true)
		return
	}
	t.frames = t.frames[:len(t.frames)-1]
	if f.barrier {
		t.unwind = false
		t.panicVal = nil
		msg := t.panicMsg
		t.panicMsg = ""
		_ = msg
		x.finishCall(t, x.F.True)
		return
	}
	if len(t.frames) == 0 {
		x.uncaughtPanic(t)
	}
}

func (x *Exec) recoverReturn(t *Thread, f *Frame) {
	// f has recovered; it returns the current values of its named results (or zero)
	if len(f.defers) > 0 {
		// run remaining defers normally first
		d := f.defers[len(f.defers)-1]
		f.defers = f.defers[:len(f.defers)-1]
		x.invoke(t, d.fn, d.args, func(ret Value) (Value, bool) {
			x.recoverReturn(t, f)
			return nil, false
		}, true)
		return
	}
	f.unwinding = false
	if f.fn.Recover != nil {
		f.block = f.fn.Recover
		f.ip = 0
		return
	}
	res := f.fn.Signature.Results()
	var ret Value
	switch res.Len() {
	case 0:
	case 1:
		ret = x.zero(res.At(0).Type())
	default:
		ret = x.zero(res)
	}
	x.doReturn(t, f, ret)
}

func (x *Exec) uncaughtPanic(t *Thread) {
	// a panic raised inside a third-party module that the engine executes without a model of its environment
	// (entropy, OS, reflection) says nothing about the code under test
	if pp := t.panicPkg; pp != "" && pp != x.P.ModulePath && !strings.HasPrefix(pp, x.P.ModulePath+"/") {
		if first := strings.SplitN(pp, "/", 2)[0]; strings.Contains(first, ".") {
			x.end("inconclusive", "unsupported: panic inside unmodelled third-party package "+pp+": "+t.panicMsg)
		}
	}
	msg := t.panicMsg
	if msg == "" {
		msg = x.describe(t.panicVal)
	}
	x.violate("panic", "panic: "+msg, nil)
}

// ---------------------------------------------------------------------

func constantBool(c *ssa.Const) bool {
	return c.Value.String() == "true"
}

func constantString(c *ssa.Const) string {
	return constantStringVal(c)
}
