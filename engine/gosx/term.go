package gosx

import (
	"fmt"
	"math/bits"
	"strings"
)

// Term DAG with hash-consing and constant folding. Width 0 means Bool.

type Op uint8

const (
	OpConst Op = iota
	OpVar
	OpAdd
	OpSub
	OpMul
	OpUDiv
	OpSDiv
	OpURem
	OpSRem
	OpAnd
	OpOr
	OpXor
	OpShl
	OpLShr
	OpAShr
	OpNot
	OpNeg
	OpEq
	OpUlt
	OpUle
	OpSlt
	OpSle
	OpIte
	OpExtract
	OpZExt
	OpSExt
	OpConcat
	OpBAnd
	OpBOr
	OpBNot
)

var opNames = [...]string{"const", "var", "bvadd", "bvsub", "bvmul", "bvudiv", "bvsdiv", "bvurem", "bvsrem", "bvand", "bvor", "bvxor",
	"bvshl", "bvlshr", "bvashr", "bvnot", "bvneg", "=", "bvult", "bvule", "bvslt", "bvsle", "ite", "extract", "zero_extend", "sign_extend", "concat", "and", "or", "not"}

type Term struct {
	Op   Op
	W    int
	Val  uint64
	Name string
	Args [3]*Term
	N    int
	Aux1 int
	Aux2 int
	ID   int
}

type termKey struct {
	op         Op
	w          int
	val        uint64
	name       string
	a0, a1, a2 int
	x1, x2     int
}

type Factory struct {
	tab    map[termKey]*Term
	nextID int
	True   *Term
	False  *Term
}

func NewFactory() *Factory {
	f := &Factory{tab: make(map[termKey]*Term)}
	f.True = f.mk(&Term{Op: OpConst, W: 0, Val: 1})
	f.False = f.mk(&Term{Op: OpConst, W: 0, Val: 0})
	return f
}

func (f *Factory) mk(t *Term) *Term {
	k := termKey{op: t.Op, w: t.W, val: t.Val, name: t.Name, x1: t.Aux1, x2: t.Aux2, a0: -1, a1: -1, a2: -1}
	if t.N > 0 {
		k.a0 = t.Args[0].ID
	}
	if t.N > 1 {
		k.a1 = t.Args[1].ID
	}
	if t.N > 2 {
		k.a2 = t.Args[2].ID
	}
	if e, ok := f.tab[k]; ok {
		return e
	}
	t.ID = f.nextID
	f.nextID++
	f.tab[k] = t
	return t
}

func mask(w int) uint64 {
	if w >= 64 {
		return ^uint64(0)
	}
	return (uint64(1) << uint(w)) - 1
}

func (t *Term) IsConst() bool { return t.Op == OpConst }
func (t *Term) IsBool() bool  { return t.W == 0 }
func (t *Term) IsTrue() bool  { return t.Op == OpConst && t.W == 0 && t.Val == 1 }
func (t *Term) IsFalse() bool { return t.Op == OpConst && t.W == 0 && t.Val == 0 }

// SVal returns the constant as a signed value.
func (t *Term) SVal() int64 {
	return signExt(t.Val, t.W)
}

func signExt(v uint64, w int) int64 {
	if w >= 64 {
		return int64(v)
	}
	if v&(1<<uint(w-1)) != 0 {
		return int64(v | ^mask(w))
	}
	return int64(v)
}

func (f *Factory) BV(w int, v uint64) *Term {
	return f.mk(&Term{Op: OpConst, W: w, Val: v & mask(w)})
}

func (f *Factory) Bool(b bool) *Term {
	if b {
		return f.True
	}
	return f.False
}

func (f *Factory) Var(name string, w int) *Term {
	return f.mk(&Term{Op: OpVar, W: w, Name: name})
}

func (f *Factory) un(op Op, w int, a *Term) *Term {
	t := &Term{Op: op, W: w, N: 1}
	t.Args[0] = a
	return f.mk(t)
}

func (f *Factory) bin(op Op, w int, a, b *Term) *Term {
	t := &Term{Op: op, W: w, N: 2}
	t.Args[0], t.Args[1] = a, b
	return f.mk(t)
}

func commutative(op Op) bool {
	switch op {
	case OpAdd, OpMul, OpAnd, OpOr, OpXor, OpEq, OpBAnd, OpBOr:
		return true
	}
	return false
}

func foldBin(op Op, w int, a, b uint64) (uint64, bool) {
	m := mask(w)
	switch op {
	case OpAdd:
		return (a + b) & m, true
	case OpSub:
		return (a - b) & m, true
	case OpMul:
		return (a * b) & m, true
	case OpUDiv:
		if b == 0 {
			return m, true
		}
		return a / b, true
	case OpURem:
		if b == 0 {
			return a, true
		}
		return a % b, true
	case OpSDiv:
		sa, sb := signExt(a, w), signExt(b, w)
		if sb == 0 {
			if sa < 0 {
				return 1, true
			}
			return m, true
		}
		if sb == -1 {
			return uint64(-sa) & m, true
		}
		return uint64(sa/sb) & m, true
	case OpSRem:
		sa, sb := signExt(a, w), signExt(b, w)
		if sb == 0 {
			return a, true
		}
		if sb == -1 {
			return 0, true
		}
		return uint64(sa%sb) & m, true
	case OpAnd:
		return a & b, true
	case OpOr:
		return a | b, true
	case OpXor:
		return a ^ b, true
	case OpShl:
		if b >= uint64(w) {
			return 0, true
		}
		return (a << b) & m, true
	case OpLShr:
		if b >= uint64(w) {
			return 0, true
		}
		return a >> b, true
	case OpAShr:
		sa := signExt(a, w)
		if b >= uint64(w) {
			if sa < 0 {
				return m, true
			}
			return 0, true
		}
		return uint64(sa>>b) & m, true
	}
	return 0, false
}

// BinBV builds a bit-vector binary operation with folding.
func (f *Factory) BinBV(op Op, a, b *Term) *Term {
	w := a.W
	if a.W != b.W {
		panic(fmt.Sprintf("BinBV width mismatch %s: %d vs %d", opNames[op], a.W, b.W))
	}
	if a.IsConst() && b.IsConst() {
		if v, ok := foldBin(op, w, a.Val, b.Val); ok {
			return f.BV(w, v)
		}
	}
	if commutative(op) && a.IsConst() && !b.IsConst() {
		a, b = b, a
	}
	if commutative(op) && !a.IsConst() && !b.IsConst() && a.ID > b.ID {
		a, b = b, a
	}
	// identities with constant right operand
	if b.IsConst() {
		switch op {
		case OpAdd, OpSub, OpOr, OpXor, OpShl, OpLShr, OpAShr:
			if b.Val == 0 {
				return a
			}
		case OpMul:
			if b.Val == 0 {
				return b
			}
			if b.Val == 1 {
				return a
			}
		case OpAnd:
			if b.Val == 0 {
				return b
			}
			if b.Val == mask(w) {
				return a
			}
		case OpUDiv, OpSDiv:
			if b.Val == 1 {
				return a
			}
		}
		if op == OpOr && b.Val == mask(w) {
			return b
		}
		if (op == OpShl || op == OpLShr) && b.Val >= uint64(w) {
			return f.BV(w, 0)
		}
		// (x + c1) + c2
		if op == OpAdd && a.Op == OpAdd && a.Args[1].IsConst() {
			return f.BinBV(OpAdd, a.Args[0], f.BV(w, a.Args[1].Val+b.Val))
		}
		if op == OpSub {
			return f.BinBV(OpAdd, a, f.BV(w, -b.Val))
		}
	}
	if a.IsConst() && a.Val == 0 {
		switch op {
		case OpShl, OpLShr, OpAShr, OpMul, OpAnd:
			return a
		}
	}
	if a == b {
		switch op {
		case OpSub, OpXor:
			return f.BV(w, 0)
		case OpAnd, OpOr:
			return a
		}
	}
	// (x + c) - x etc. are left to the solver
	return f.bin(op, w, a, b)
}

func (f *Factory) Add(a, b *Term) *Term { return f.BinBV(OpAdd, a, b) }
func (f *Factory) Sub(a, b *Term) *Term { return f.BinBV(OpSub, a, b) }

func (f *Factory) NotBV(a *Term) *Term {
	if a.IsConst() {
		return f.BV(a.W, ^a.Val)
	}
	if a.Op == OpNot {
		return a.Args[0]
	}
	return f.un(OpNot, a.W, a)
}

func (f *Factory) NegBV(a *Term) *Term {
	if a.IsConst() {
		return f.BV(a.W, -a.Val)
	}
	return f.un(OpNeg, a.W, a)
}

// Cmp builds a comparison (OpEq, OpUlt, OpUle, OpSlt, OpSle) -> Bool
func (f *Factory) Cmp(op Op, a, b *Term) *Term {
	if a.W != b.W {
		panic(fmt.Sprintf("Cmp width mismatch %s: %d vs %d", opNames[op], a.W, b.W))
	}
	if a.IsConst() && b.IsConst() {
		switch op {
		case OpEq:
			return f.Bool(a.Val == b.Val)
		case OpUlt:
			return f.Bool(a.Val < b.Val)
		case OpUle:
			return f.Bool(a.Val <= b.Val)
		case OpSlt:
			return f.Bool(a.SVal() < b.SVal())
		case OpSle:
			return f.Bool(a.SVal() <= b.SVal())
		}
	}
	if a == b {
		switch op {
		case OpEq, OpUle, OpSle:
			return f.True
		case OpUlt, OpSlt:
			return f.False
		}
	}
	if op == OpEq {
		if a.W == 0 {
			// boolean equality
			if a.IsConst() {
				a, b = b, a
			}
			if b.IsConst() {
				if b.Val == 1 {
					return a
				}
				return f.Not(a)
			}
		}
		if a.IsConst() && !b.IsConst() {
			a, b = b, a
		}
		if !a.IsConst() && !b.IsConst() && a.ID > b.ID {
			a, b = b, a
		}
		// ite(c, k1, k2) == k  with constants
		if b.IsConst() && a.Op == OpIte && a.Args[1].IsConst() && a.Args[2].IsConst() {
			t, e := a.Args[1].Val == b.Val, a.Args[2].Val == b.Val
			switch {
			case t && e:
				return f.True
			case t && !e:
				return a.Args[0]
			case !t && e:
				return f.Not(a.Args[0])
			default:
				return f.False
			}
		}
		// zext(x) == const
		if b.IsConst() && a.Op == OpZExt {
			iw := a.Args[0].W
			if b.Val&^mask(iw) != 0 {
				return f.False
			}
			return f.Cmp(OpEq, a.Args[0], f.BV(iw, b.Val))
		}
	}
	if op == OpUlt && b.IsConst() && b.Val == 0 {
		return f.False
	}
	if op == OpUle && a.IsConst() && a.Val == 0 {
		return f.True
	}
	if (op == OpUlt || op == OpUle) && a.Op == OpZExt && b.IsConst() {
		iw := a.Args[0].W
		if b.Val > mask(iw) {
			return f.True
		}
		return f.Cmp(op, a.Args[0], f.BV(iw, b.Val))
	}
	return f.bin(op, 0, a, b)
}

func (f *Factory) Eq(a, b *Term) *Term { return f.Cmp(OpEq, a, b) }

func (f *Factory) Not(a *Term) *Term {
	if a.W != 0 {
		panic("Not on non-bool")
	}
	if a.IsConst() {
		return f.Bool(a.Val == 0)
	}
	if a.Op == OpBNot {
		return a.Args[0]
	}
	return f.un(OpBNot, 0, a)
}

func (f *Factory) And(a, b *Term) *Term {
	if a.IsFalse() || b.IsFalse() {
		return f.False
	}
	if a.IsTrue() {
		return b
	}
	if b.IsTrue() {
		return a
	}
	if a == b {
		return a
	}
	if f.Not(a) == b {
		return f.False
	}
	return f.bin(OpBAnd, 0, a, b)
}

func (f *Factory) Or(a, b *Term) *Term {
	if a.IsTrue() || b.IsTrue() {
		return f.True
	}
	if a.IsFalse() {
		return b
	}
	if b.IsFalse() {
		return a
	}
	if a == b {
		return a
	}
	if f.Not(a) == b {
		return f.True
	}
	return f.bin(OpBOr, 0, a, b)
}

func (f *Factory) Implies(a, b *Term) *Term { return f.Or(f.Not(a), b) }

func (f *Factory) Ite(c, a, b *Term) *Term {
	if c.IsTrue() {
		return a
	}
	if c.IsFalse() {
		return b
	}
	if a == b {
		return a
	}
	if a.W != b.W {
		panic("Ite width mismatch")
	}
	if a.W == 0 {
		if a.IsTrue() && b.IsFalse() {
			return c
		}
		if a.IsFalse() && b.IsTrue() {
			return f.Not(c)
		}
		if a.IsTrue() {
			return f.Or(c, b)
		}
		if a.IsFalse() {
			return f.And(f.Not(c), b)
		}
		if b.IsTrue() {
			return f.Or(f.Not(c), a)
		}
		if b.IsFalse() {
			return f.And(c, a)
		}
	}
	t := &Term{Op: OpIte, W: a.W, N: 3}
	t.Args[0], t.Args[1], t.Args[2] = c, a, b
	return f.mk(t)
}

func (f *Factory) Extract(a *Term, hi, lo int) *Term {
	w := hi - lo + 1
	if lo == 0 && w == a.W {
		return a
	}
	if a.IsConst() {
		return f.BV(w, a.Val>>uint(lo))
	}
	if a.Op == OpZExt || a.Op == OpSExt {
		inner := a.Args[0]
		if hi < inner.W {
			return f.Extract(inner, hi, lo)
		}
		if a.Op == OpZExt && lo >= inner.W {
			return f.BV(w, 0)
		}
	}
	if a.Op == OpExtract {
		return f.Extract(a.Args[0], hi+a.Aux2, lo+a.Aux2)
	}
	if a.Op == OpConcat {
		lw := a.Args[1].W
		if hi < lw {
			return f.Extract(a.Args[1], hi, lo)
		}
		if lo >= lw {
			return f.Extract(a.Args[0], hi-lw, lo-lw)
		}
	}
	// extract of low bits distributes over and/or/xor with constants (byte(v & 127))
	if lo == 0 && (a.Op == OpAnd || a.Op == OpOr || a.Op == OpXor) && a.Args[1].IsConst() {
		return f.BinBV(a.Op, f.Extract(a.Args[0], hi, 0), f.BV(w, a.Args[1].Val))
	}
	t := &Term{Op: OpExtract, W: w, N: 1, Aux1: hi, Aux2: lo}
	t.Args[0] = a
	return f.mk(t)
}

func (f *Factory) ZExt(a *Term, w int) *Term {
	if w == a.W {
		return a
	}
	if w < a.W {
		return f.Extract(a, w-1, 0)
	}
	if a.IsConst() {
		return f.BV(w, a.Val)
	}
	if a.Op == OpZExt {
		return f.ZExt(a.Args[0], w)
	}
	t := &Term{Op: OpZExt, W: w, N: 1, Aux1: w - a.W}
	t.Args[0] = a
	return f.mk(t)
}

func (f *Factory) SExt(a *Term, w int) *Term {
	if w == a.W {
		return a
	}
	if w < a.W {
		return f.Extract(a, w-1, 0)
	}
	if a.IsConst() {
		return f.BV(w, uint64(a.SVal()))
	}
	if a.Op == OpZExt {
		return f.ZExt(a.Args[0], w)
	}
	t := &Term{Op: OpSExt, W: w, N: 1, Aux1: w - a.W}
	t.Args[0] = a
	return f.mk(t)
}

func (f *Factory) Concat(hi, lo *Term) *Term {
	if hi.IsConst() && lo.IsConst() && hi.W+lo.W <= 64 {
		return f.BV(hi.W+lo.W, hi.Val<<uint(lo.W)|lo.Val)
	}
	return f.bin(OpConcat, hi.W+lo.W, hi, lo)
}

// ---------------------------------------------------------------------
// evaluation under a model (for replay-value completion and self checks)

func (t *Term) Eval(m map[string]uint64) uint64 {
	cache := map[*Term]uint64{}
	return evalTerm(t, m, cache)
}

func evalTerm(t *Term, m map[string]uint64, cache map[*Term]uint64) uint64 {
	if t.Op == OpConst {
		return t.Val
	}
	if v, ok := cache[t]; ok {
		return v
	}
	var r uint64
	switch t.Op {
	case OpVar:
		r = m[t.Name] & maskOrBool(t.W)
	case OpNot:
		r = ^evalTerm(t.Args[0], m, cache) & mask(t.W)
	case OpNeg:
		r = (-evalTerm(t.Args[0], m, cache)) & mask(t.W)
	case OpBNot:
		r = 1 - evalTerm(t.Args[0], m, cache)
	case OpBAnd:
		r = evalTerm(t.Args[0], m, cache) & evalTerm(t.Args[1], m, cache)
	case OpBOr:
		r = evalTerm(t.Args[0], m, cache) | evalTerm(t.Args[1], m, cache)
	case OpIte:
		if evalTerm(t.Args[0], m, cache) != 0 {
			r = evalTerm(t.Args[1], m, cache)
		} else {
			r = evalTerm(t.Args[2], m, cache)
		}
	case OpExtract:
		r = (evalTerm(t.Args[0], m, cache) >> uint(t.Aux2)) & mask(t.W)
	case OpZExt:
		r = evalTerm(t.Args[0], m, cache)
	case OpSExt:
		r = uint64(signExt(evalTerm(t.Args[0], m, cache), t.Args[0].W)) & mask(t.W)
	case OpConcat:
		r = evalTerm(t.Args[0], m, cache)<<uint(t.Args[1].W) | evalTerm(t.Args[1], m, cache)
	case OpEq, OpUlt, OpUle, OpSlt, OpSle:
		a, b := evalTerm(t.Args[0], m, cache), evalTerm(t.Args[1], m, cache)
		w := t.Args[0].W
		var c bool
		switch t.Op {
		case OpEq:
			c = a == b
		case OpUlt:
			c = a < b
		case OpUle:
			c = a <= b
		case OpSlt:
			c = signExt(a, w) < signExt(b, w)
		case OpSle:
			c = signExt(a, w) <= signExt(b, w)
		}
		if c {
			r = 1
		}
	default:
		a, b := evalTerm(t.Args[0], m, cache), evalTerm(t.Args[1], m, cache)
		v, ok := foldBin(t.Op, t.W, a, b)
		if !ok {
			panic("eval: unknown op " + opNames[t.Op])
		}
		r = v
	}
	cache[t] = r
	return r
}

func maskOrBool(w int) uint64 {
	if w == 0 {
		return 1
	}
	return mask(w)
}

// ---------------------------------------------------------------------
// SMT-LIB printing

func sortName(w int) string {
	if w == 0 {
		return "Bool"
	}
	return fmt.Sprintf("(_ BitVec %d)", w)
}

func constStr(t *Term) string {
	if t.W == 0 {
		if t.Val == 1 {
			return "true"
		}
		return "false"
	}
	if t.W%4 == 0 {
		return fmt.Sprintf("#x%0*x", t.W/4, t.Val)
	}
	return fmt.Sprintf("#b%0*b", t.W, t.Val)
}

// smtPrinter emits define-fun lines for every composite node once per scope.
type smtPrinter struct {
	defined map[int]bool
	declVar map[string]bool
	sb      *strings.Builder
}

func (p *smtPrinter) ref(t *Term) string {
	switch t.Op {
	case OpConst:
		return constStr(t)
	case OpVar:
		return "|" + t.Name + "|"
	}
	return fmt.Sprintf("t%d", t.ID)
}

// emit ensures the term and all its sub-terms are defined; returns the name.
func (p *smtPrinter) emit(t *Term) string {
	switch t.Op {
	case OpConst:
		return constStr(t)
	case OpVar:
		if !p.declVar[t.Name] {
			p.declVar[t.Name] = true
			fmt.Fprintf(p.sb, "(declare-const |%s| %s)\n", t.Name, sortName(t.W))
		}
		return "|" + t.Name + "|"
	}
	if p.defined[t.ID] {
		return fmt.Sprintf("t%d", t.ID)
	}
	// iterative post-order to avoid deep recursion
	type fr struct {
		t *Term
		i int
	}
	stack := []fr{{t, 0}}
	for len(stack) > 0 {
		top := &stack[len(stack)-1]
		if top.i < top.t.N {
			c := top.t.Args[top.i]
			top.i++
			if c.Op == OpConst {
				continue
			}
			if c.Op == OpVar {
				if !p.declVar[c.Name] {
					p.declVar[c.Name] = true
					fmt.Fprintf(p.sb, "(declare-const |%s| %s)\n", c.Name, sortName(c.W))
				}
				continue
			}
			if !p.defined[c.ID] {
				stack = append(stack, fr{c, 0})
			}
			continue
		}
		n := top.t
		stack = stack[:len(stack)-1]
		if p.defined[n.ID] {
			continue
		}
		p.defined[n.ID] = true
		fmt.Fprintf(p.sb, "(define-fun t%d () %s ", n.ID, sortName(n.W))
		switch n.Op {
		case OpExtract:
			fmt.Fprintf(p.sb, "((_ extract %d %d) %s)", n.Aux1, n.Aux2, p.ref(n.Args[0]))
		case OpZExt, OpSExt:
			fmt.Fprintf(p.sb, "((_ %s %d) %s)", opNames[n.Op], n.Aux1, p.ref(n.Args[0]))
		default:
			p.sb.WriteString("(")
			p.sb.WriteString(opNames[n.Op])
			for i := 0; i < n.N; i++ {
				p.sb.WriteString(" ")
				p.sb.WriteString(p.ref(n.Args[i]))
			}
			p.sb.WriteString(")")
		}
		p.sb.WriteString(")\n")
	}
	return fmt.Sprintf("t%d", t.ID)
}

func (t *Term) String() string {
	var sb strings.Builder
	t.str(&sb, 0)
	return sb.String()
}

func (t *Term) str(sb *strings.Builder, depth int) {
	switch t.Op {
	case OpConst:
		if t.W == 0 {
			sb.WriteString(constStr(t))
		} else {
			fmt.Fprintf(sb, "%d", t.SVal())
		}
		return
	case OpVar:
		sb.WriteString(t.Name)
		return
	}
	if depth > 6 {
		sb.WriteString("…")
		return
	}
	sb.WriteString("(")
	sb.WriteString(opNames[t.Op])
	if t.Op == OpExtract {
		fmt.Fprintf(sb, "[%d:%d]", t.Aux1, t.Aux2)
	}
	for i := 0; i < t.N; i++ {
		sb.WriteString(" ")
		t.Args[i].str(sb, depth+1)
	}
	sb.WriteString(")")
}

var _ = bits.Len64
