//go:build verif

package xbinary

// C16: decoders are total. Every byte of the input and its length are symbolic:
// no panic on any path; on success 1 <= consumed <= len(input) and the result is the decoded
// sub-range (or a copy of it); on failure consumed == 0.

func zzC16Bytes() {
	n := vRange("n", 0, vParam("N"))
	buf := zzWindow("buf", n)
	newBuf := vBool("newBuf")
	c, res, err := UnmarshalBytes(buf, newBuf)
	vReach("returned")
	if err != nil {
		vAssert(c == 0, "error but consumed != 0")
		return
	}
	vAssert(c >= 1 && c <= n, "consumed outside the input")
	vAssert(len(res) <= c, "result longer than consumed")
	if newBuf {
		vAssert(!vSameCell(res, buf), "newBuf=true but result aliases the input")
	} else if len(res) > 0 {
		vAssert(vSameCell(res, buf), "result is not a sub-range of the input")
	}
	for i := range res {
		vAssert(res[i] == buf[c-len(res)+i], "result bytes differ from input range")
	}
}

func zzC16String() {
	n := vRange("n", 0, vParam("N"))
	buf := zzWindow("buf", n)
	newBuf := vBool("newBuf")
	c, res, err := UnmarshalString(buf, newBuf)
	vReach("returned")
	if err != nil {
		vAssert(c == 0, "error but consumed != 0")
		vAssert(res == "", "error but non-empty string")
		return
	}
	vAssert(c >= 1 && c <= n, "consumed outside the input")
	vAssert(len(res) <= c, "result longer than consumed")
	for i := 0; i < len(res); i++ {
		vAssert(res[i] == buf[c-len(res)+i], "result bytes differ from input range")
	}
}

func zzC16Uint() {
	n := vRange("n", 0, vParam("N"))
	buf := zzWindow("buf", n)
	c, _, err := UnmarshalUint(buf)
	vReach("returned")
	if err != nil {
		vAssert(c == 0, "error but consumed != 0")
		return
	}
	vAssert(c >= 1 && c <= n, "consumed outside the input")
	// the consumed bytes are exactly the continuation run plus the terminator
	for i := 0; i < c-1; i++ {
		vAssert(buf[i] > 127, "consumed past a terminating byte")
	}
	vAssert(buf[c-1] <= 127, "last consumed byte is not a terminator")
}

func zzC16Fixed() {
	n := vRange("n", 0, vParam("NF"))
	buf := zzWindow("buf", n)
	switch vChoose("kind", 4) {
	case 0:
		c, v, err := UnmarshalByte(buf)
		vReach("returned")
		vAssert((err != nil) == (n < 1), "UnmarshalByte error iff input shorter than 1")
		if err == nil {
			vAssert(c == 1 && v == buf[0], "UnmarshalByte value")
		} else {
			vAssert(c == 0, "error but consumed != 0")
		}
	case 1:
		c, v, err := UnmarshalUint16(buf)
		vAssert((err != nil) == (n < 2), "UnmarshalUint16 error iff input shorter than 2")
		if err == nil {
			vAssert(c == 2 && v == uint16(buf[0])<<8|uint16(buf[1]), "UnmarshalUint16 value")
		} else {
			vAssert(c == 0, "error but consumed != 0")
		}
	case 2:
		c, v, err := UnmarshalUint32(buf)
		vAssert((err != nil) == (n < 4), "UnmarshalUint32 error iff input shorter than 4")
		if err == nil {
			vAssert(c == 4 && v == uint32(buf[0])<<24|uint32(buf[1])<<16|uint32(buf[2])<<8|uint32(buf[3]), "UnmarshalUint32 value")
		} else {
			vAssert(c == 0, "error but consumed != 0")
		}
	case 3:
		c, v, err := UnmarshalUint64(buf)
		vAssert((err != nil) == (n < 8), "UnmarshalUint64 error iff input shorter than 8")
		if err == nil {
			w := uint64(0)
			for i := 0; i < 8; i++ {
				w = w<<8 | uint64(buf[i])
			}
			vAssert(c == 8 && v == w, "UnmarshalUint64 value")
		} else {
			vAssert(c == 0, "error but consumed != 0")
		}
	}
}
