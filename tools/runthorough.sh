#!/bin/bash
# runs the thorough tier of the given checks one after the other (evidence goes to a scratch dir), with a time limit each
LIMIT=${LIMIT:-2400}
OUT=${OUT:-/verif/.work/thorough}
mkdir -p $OUT
cd /verif
for c in "$@"; do
  S=$(date +%s)
  GOSX_EVIDENCE_DIR=$OUT timeout $LIMIT bin/gosx check $c --tier thorough > $OUT/$c.log 2>&1; RC=$?
  E=$(( $(date +%s) - S ))
  echo "$c exit=$RC ${E}s $(tail -1 $OUT/$c.log | cut -c1-150)" | tee -a $OUT/summary.txt
done
