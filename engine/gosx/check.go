package gosx

func CheckMain(args []string) int { return 2 }
