#!/bin/bash
# usage: confirmmutants.sh "<PROP> <k> [checks...]" ...   for each: git -C /repo apply, run the quick checks against /repo, undo
cd /verif
mkdir -p /tmp/ev-mut /tmp/mut/confirm
for spec in "$@"; do
  set -- $spec; P=$1; K=$2; shift 2; CHECKS=${@:-$P}
  git -C /repo status --short | grep -q . && { echo "/repo dirty"; exit 3; }
  git -C /repo apply /tmp/mut/out/$P/m$K.diff || { echo "$P m$K: PATCH DOES NOT APPLY"; continue; }
  for C in $CHECKS; do
    OUT=$(GOSX_EVIDENCE_DIR=/tmp/ev-mut timeout 1500 bin/gosx check $C --tier quick 2>&1); RC=$?
    echo "$P m$K check $C exit=$RC $(echo "$OUT" | grep -E "violation in|INCONCLUSIVE" | head -1 | cut -c1-200)" | tee -a /tmp/mut/confirm/summary.txt
  done
  git -C /repo checkout -- .
done
