//go:build verif

package PKGNAME

// C02: concurrent histories are linearizable, single winners, fresh versions.
// T threads each issue one operation on one key; every interleaving (at the backend's atomic-step granularity)
// is explored; afterwards some sequential order of the T operations must explain every result and the final state.

import (
	"context"

	"github.com/acquirecloud/golibs/errors"
	"github.com/acquirecloud/golibs/kvs"
)

type zzOp struct {
	kind int // 0 Create 1 Put 2 CasByVersion(pre-state version) 3 Delete 4 Get 5 CasByVersion(stale)
	val  byte
	// results
	err  error
	ver  string
	rec  kvs.Record
	done chan struct{}
}

var zzStrictCreateVersion = true

type zzSeqState struct {
	present bool
	ver     string
	val     byte
}

// explain: does running ops in the given order on the model reproduce every observed result?
func zzExplain(ops []*zzOp, order []int, st zzSeqState, final zzSeqState) bool {
	for _, i := range order {
		o := ops[i]
		switch o.kind {
		case 0:
			if st.present {
				// (a backend whose Create is not one atomic step may report the version it read a moment later)
				if !zzIsErr(o.err, errors.ErrExist) || (zzStrictCreateVersion && o.ver != st.ver) {
					return false
				}
			} else {
				if o.err != nil {
					return false
				}
				st = zzSeqState{true, o.ver, o.val}
			}
		case 1:
			if o.err != nil {
				return false
			}
			st = zzSeqState{true, o.rec.Version, o.val}
		case 2, 5:
			want := "pre-version"
			if o.kind == 5 {
				want = "stale-version"
			}
			switch {
			case !st.present:
				// the statement allows a loser either documented outcome; a backend whose CAS is an optimistic
				// transaction reports ErrConflict when the key was deleted under it
				if !zzIsErr(o.err, errors.ErrNotExist) && !(!zzStrictCreateVersion && zzIsErr(o.err, errors.ErrConflict)) {
					return false
				}
			case st.ver != want:
				if !zzIsErr(o.err, errors.ErrConflict) {
					return false
				}
			default:
				if o.err != nil {
					return false
				}
				st = zzSeqState{true, o.rec.Version, o.val}
			}
		case 3:
			if st.present != (o.err == nil) {
				return false
			}
			if o.err != nil && !zzIsErr(o.err, errors.ErrNotExist) {
				return false
			}
			st.present = false
		case 4:
			if st.present {
				if o.err != nil || o.rec.Version != st.ver || len(o.rec.Value) != 1 || o.rec.Value[0] != st.val {
					return false
				}
			} else if !zzIsErr(o.err, errors.ErrNotExist) {
				return false
			}
		}
	}
	if st.present != final.present {
		return false
	}
	return !st.present || (st.ver == final.ver && st.val == final.val)
}

func zzPerms(n int) [][]int {
	if n == 1 {
		return [][]int{{0}}
	}
	var out [][]int
	for _, p := range zzPerms(n - 1) {
		for pos := 0; pos <= len(p); pos++ {
			q := append(append(append([]int{}, p[:pos]...), n-1), p[pos:]...)
			out = append(out, q)
		}
	}
	return out
}

// zzC02Run drives st (whose key "a" holds the record with version "pre-version" iff prePresent).
func zzC02Run(st kvs.Storage, prePresent bool, key string) {
	bg := context.Background()
	T := vParam("T")
	ops := make([]*zzOp, T)
	for i := range ops {
		ops[i] = &zzOp{kind: vChoose("kind", 6), val: byte(10 + i), done: make(chan struct{})}
		if (vParam("KINDMASK")>>uint(ops[i].kind))&1 == 0 {
			vAssume(false) // operation kind not in this entry's alphabet
		}
	}
	for i := range ops {
		o := ops[i]
		vSpawn("client", func() {
			switch o.kind {
			case 0:
				o.ver, o.err = st.Create(bg, kvs.Record{Key: key, Value: []byte{o.val}})
			case 1:
				o.rec, o.err = st.Put(bg, kvs.Record{Key: key, Value: []byte{o.val}})
			case 2:
				o.rec, o.err = st.CasByVersion(bg, kvs.Record{Key: key, Value: []byte{o.val}, Version: "pre-version"})
			case 5:
				o.rec, o.err = st.CasByVersion(bg, kvs.Record{Key: key, Value: []byte{o.val}, Version: "stale-version"})
			case 3:
				o.err = st.Delete(bg, key)
			case 4:
				o.rec, o.err = st.Get(bg, key)
			}
			close(o.done)
		})
	}
	for _, o := range ops {
		<-o.done
	}
	vReach("all-done")
	// final state
	var final zzSeqState
	if r, err := st.Get(bg, key); err == nil {
		final = zzSeqState{true, r.Version, 0}
		if len(r.Value) == 1 {
			final.val = r.Value[0]
		}
	} else {
		vAssert(zzIsErr(err, errors.ErrNotExist), "final Get failed with an undocumented error")
	}
	// direct claims
	creators, casWinners := 0, 0
	var versions []string
	for _, o := range ops {
		switch o.kind {
		case 0:
			if o.err == nil {
				creators++
				versions = append(versions, o.ver)
			} else {
				vAssert(zzIsErr(o.err, errors.ErrExist), "a losing creator got an undocumented error")
			}
		case 1:
			vAssert(o.err == nil, "Put failed")
			versions = append(versions, o.rec.Version)
		case 2, 5:
			if o.err == nil {
				if o.kind == 2 {
					casWinners++
				} else {
					vAssert(false, "CasByVersion against a version that never existed succeeded")
				}
				versions = append(versions, o.rec.Version)
			} else {
				vAssert(zzIsErr(o.err, errors.ErrConflict) || zzIsErr(o.err, errors.ErrNotExist), "a losing CasByVersion got an undocumented error")
			}
		}
	}
	vAssert(casWinners <= 1, "CasByVersion against one version succeeded more than once")
	for i := range versions {
		vAssert(versions[i] != "" && versions[i] != "pre-version", "a write returned an old or empty version")
		for j := i + 1; j < len(versions); j++ {
			vAssert(versions[i] != versions[j], "two successful writes returned the same version")
		}
	}
	start := zzSeqState{prePresent, "pre-version", 1}
	ok := false
	for _, p := range zzPerms(T) {
		if zzExplain(ops, p, start, final) {
			ok = true
			break
		}
	}
	vAssert(ok, "no sequential order of the operations explains the observed results and final state")
}
