//go:build verif

package files

import (
	"archive/zip"
	"io"
	"io/fs"
	"os"
	"path/filepath"
	"strings"
	"time"
)

// C20: zip helpers. Under the engine the file system and the archive reader/writer are contract stubs that
// record the paths they are asked to create; natively (replay) the same harness uses a real temporary directory.

var (
	zzMade    []string // os.MkdirAll
	zzCreated []string // os.Create
	zzEntries []*zip.File
	zzZipped  []string // (*zip.Writer).Create
	zzTree    []zzNode
)

type zzNode struct {
	path  string
	isDir bool
}

type zzFileInfo struct {
	name  string
	isDir bool
}

func (f zzFileInfo) Name() string       { return f.name }
func (f zzFileInfo) Size() int64        { return 0 }
func (f zzFileInfo) Mode() fs.FileMode  { return 0 }
func (f zzFileInfo) ModTime() time.Time { return time.Time{} }
func (f zzFileInfo) IsDir() bool        { return f.isDir }
func (f zzFileInfo) Sys() any           { return nil }

type zzIter struct{ idx int }

func (zi *zzIter) Next() *zip.File {
	if zi.idx >= len(zzEntries) {
		return nil
	}
	zi.idx++
	return zzEntries[zi.idx-1]
}
func (zi *zzIter) Close() error { return nil }

// content is modelled by its length only
type zzRC struct{ n int }

func (zzRC) Read(p []byte) (int, error) { return 0, io.EOF }
func (zzRC) Close() error               { return nil }

var (
	zzFileLen  = map[string]int{}      // path -> content length of the files in the modelled file system
	zzOpenPath = map[*os.File]string{} // files opened for writing
	zzEntryLen = map[*zip.File]int{}
)

// stubs (engine only)
func zzNewZipIterator(zipFile string) (ZipIterator, error) { return &zzIter{}, nil }
func zzZipFileOpen(f *zip.File) (io.ReadCloser, error)     { return zzRC{zzEntryLen[f]}, nil }
// a minimal file system: the directories that exist (the destination's ancestors, whatever MkdirAll made) and the
// files of the source tree can be opened; creating a file where a directory exists fails
var zzDirs = []string{"/", "/dst", "/dst/out", "/d", "/tmp", "/s", "."}

func zzIsDir(name string) bool {
	c := filepath.Clean(name)
	if c == ".." || (len(c) > 3 && c[len(c)-3:] == "/..") {
		return true // the parent of a directory is a directory
	}
	for _, d := range zzDirs {
		if c == d {
			return true
		}
	}
	for _, d := range zzMade {
		if c == filepath.Clean(d) {
			return true
		}
	}
	return false
}

func zzOsOpen(name string) (*os.File, error) {
	if zzIsDir(name) {
		return new(os.File), nil
	}
	for _, n := range zzTree {
		if n.path == name {
			return new(os.File), nil
		}
	}
	return nil, os.ErrNotExist
}
func zzOsIsNotExist(err error) bool                        { return err == os.ErrNotExist }
func zzOsMkdirAll(path string, perm os.FileMode) error     { zzMade = append(zzMade, path); return nil }
func zzOsCreate(name string) (*os.File, error) {
	if zzIsDir(name) {
		return nil, os.ErrInvalid // "is a directory"
	}
	return zzOsOpenFile(name, os.O_RDWR|os.O_CREATE|os.O_TRUNC, 0666)
}

func zzOsOpenFile(name string, flag int, perm os.FileMode) (*os.File, error) {
	if zzIsDir(name) {
		return nil, os.ErrInvalid // "is a directory"
	}
	if _, exists := zzFileLen[name]; !exists && flag&os.O_CREATE == 0 {
		return nil, os.ErrNotExist
	}
	if flag&(os.O_WRONLY|os.O_RDWR) != 0 {
		zzCreated = append(zzCreated, name)
	}
	if _, exists := zzFileLen[name]; !exists || flag&os.O_TRUNC != 0 {
		zzFileLen[name] = 0
	}
	f := new(os.File)
	zzOpenPath[f] = name
	return f, nil
}
func zzOsRemove(name string) error                               { return nil }
func zzFileClose(f *os.File) error                               { return nil }
func zzIoCopy(dst io.Writer, src io.Reader) (int64, error) {
	n := 0
	if rc, ok := src.(zzRC); ok {
		n = rc.n
	}
	if f, ok := dst.(*os.File); ok {
		if p, ok := zzOpenPath[f]; ok && zzFileLen[p] < n {
			zzFileLen[p] = n // writing n bytes from offset 0 never shortens a file
		}
	}
	return int64(n), nil
}
func zzZipNewWriter(w io.Writer) *zip.Writer                     { return new(zip.Writer) }
func zzZipWriterClose(w *zip.Writer) error                       { return nil }
func zzZipWriterCreate(w *zip.Writer, name string) (io.Writer, error) {
	zzZipped = append(zzZipped, name)
	return io.Discard, nil
}
func zzWalk(root string, fn filepath.WalkFunc) error {
	if err := fn(root, zzFileInfo{root, true}, nil); err != nil {
		return err
	}
	for _, n := range zzTree {
		if err := fn(n.path, zzFileInfo{n.path, n.isDir}, nil); err != nil {
			return err
		}
	}
	return nil
}

// zzInsideRef: the cleaned path p lies in the cleaned directory d (or is d), also for the root and for the
// current directory, where "inside" cannot be read off a textual prefix
func zzInsideRef(d, p string) bool {
	abs := len(p) > 0 && p[0] == '/'
	switch d {
	case "/":
		return abs
	case ".":
		return !abs && p != ".." && !(len(p) >= 3 && p[:3] == "../")
	}
	return zzInside(d, p)
}

func zzInside(dir, p string) bool {
	return p == dir || (len(p) > len(dir) && p[:len(dir)] == dir && p[len(dir)] == '/')
}

// extraction is confined to the destination directory, for any entry names
func zzC20Unzip() {
	E := vConcrete(vRange("entries", 1, vParam("E")))
	names := make([]string, E)
	for i := range names {
		n := vConcrete(vRange("nameLen", 1, vParam("L")))
		b := vBytes("name", n)
		for _, c := range b {
			vAssume(c != 0 && c < 0x80) // NUL cannot appear in a path; ASCII keeps string iteration byte-wise
		}
		names[i] = string(b)
	}
	lens := make([]int, len(names))
	pre := make([]bool, len(names))
	for i := range names {
		lens[i] = vChoose("contentLen", 3)
		// the destination may already hold a (longer) file under this name from an earlier extraction
		pre[i] = vChoose("preExisting", 2) == 1
	}
	// the destination as the caller spells it: absolute, the current directory in two spellings, relative with a
	// trailing slash, the root
	destForm := vChoose("destForm", vParam("DESTS"))
	destSpelled := []string{"/dst/out", ".", "./", "out/", "/"}[destForm]
	if vNative() {
		if destSpelled != "/" { // the real root is not ours to write to
			zzC20UnzipNative(names, lens, pre, destSpelled)
		}
		return
	}
	destDir := filepath.Clean(destSpelled)
	zzEntries = nil
	for i, n := range names {
		zf := &zip.File{FileHeader: zip.FileHeader{Name: n}}
		zzEntryLen[zf] = lens[i]
		zzEntries = append(zzEntries, zf)
		if pre[i] {
			if w := filepath.Join(destDir, n); zzInsideRef(destDir, w) && !zzIsDir(w) {
				zzFileLen[w] = 2
			}
		}
	}
	zzMade, zzCreated = nil, nil
	err := UnzipToFolder("/tmp/a.zip", destSpelled)
	vReach("unzipped")
	_ = err
	for _, p := range zzMade {
		vAssert(zzInsideRef(destDir, filepath.Clean(p)), "UnzipToFolder created a directory outside the destination directory")
	}
	for _, p := range zzCreated {
		vAssert(zzInsideRef(destDir, filepath.Clean(p)), "UnzipToFolder created a file outside the destination directory")
	}
	// entries that stay inside are extracted to destDir + name
	if err == nil {
		for _, n := range names {
			if n[len(n)-1] == '/' {
				continue
			}
			want := filepath.Join(destDir, n)
			if !zzInsideRef(destDir, want) {
				continue
			}
			found := false
			for _, p := range zzCreated {
				if p == want {
					found = true
				}
			}
			vAssert(found, "an entry inside the destination was not extracted to destDir + name")
			// content (length): the last entry that maps to this path wins, nothing of an older file survives
			last := -1
			for j, m := range names {
				if filepath.Join(destDir, m) == want && m[len(m)-1] != '/' {
					last = j
				}
			}
			vAssert(zzFileLen[want] == lens[last], "an extracted file does not have the archived content (length differs)")
		}
	}
}

// native twin: a real archive with these entry names, a real destination, and a look at the file system
func zzC20UnzipNative(names []string, lens []int, pre []bool, destSpelled string) {
	root, err := os.MkdirTemp("", "zzc20")
	if err != nil {
		panic("VERIF-DIVERGED: " + err.Error())
	}
	defer os.RemoveAll(root)
	// destDir: where the destination is, absolutely; destArg: what UnzipToFolder is given
	destDir := filepath.Join(root, "dst", "out")
	destArg := destDir
	if destSpelled[0] != '/' {
		// a relative destination: the working directory is <root>/dst/cwd for the duration of the call
		cwd := filepath.Join(root, "dst", "cwd")
		os.MkdirAll(cwd, 0755)
		old, err := os.Getwd()
		if err != nil || os.Chdir(cwd) != nil {
			panic("VERIF-DIVERGED: chdir")
		}
		defer os.Chdir(old)
		destDir = filepath.Join(cwd, destSpelled)
		destArg = destSpelled
	}
	os.MkdirAll(destDir, 0755)
	zf := filepath.Join(root, "a.zip")
	f, _ := os.Create(zf)
	zw := zip.NewWriter(f)
	for i, n := range names {
		w, err := zw.CreateHeader(&zip.FileHeader{Name: n})
		if err == nil && !strings.HasSuffix(n, "/") {
			w.Write([]byte("xy")[:lens[i]])
		}
		if pre[i] {
			if p := filepath.Join(destDir, n); zzInside(destDir, p) && p != destDir {
				os.MkdirAll(filepath.Dir(p), 0755)
				os.WriteFile(p, []byte("OLD-CONTENT"), 0644)
			}
		}
	}
	zw.Close()
	f.Close()
	uerr := UnzipToFolder(zf, destArg)
	filepath.Walk(root, func(p string, info os.FileInfo, err error) error {
		if err != nil || p == zf || p == root {
			return nil
		}
		if !zzInside(destDir, p) && !zzInside(p, destDir) {
			vAssert(false, "UnzipToFolder created "+p[len(root):]+" outside the destination directory")
		}
		return nil
	})
	if uerr == nil {
		for _, n := range names {
			if strings.HasSuffix(n, "/") {
				continue
			}
			want := filepath.Join(destDir, n)
			if !zzInside(destDir, want) {
				continue
			}
			last := -1
			for j, m := range names {
				if filepath.Join(destDir, m) == want && !strings.HasSuffix(m, "/") {
					last = j
				}
			}
			if fi, err := os.Stat(want); err == nil && !fi.IsDir() {
				vAssert(int(fi.Size()) == lens[last], "an extracted file does not have the archived content (length differs)")
			}
		}
	}
}

// ZipFolder selects exactly the regular files admitted by the filter and the recursive flag, and names them by
// their path relative to the source directory; UnzipToFolder maps each such name back under the destination.
func zzC20Zip() {
	srcDir := []string{"/s", "/s/"}[vChoose("srcDirForm", 2)]
	base := "/s"
	segs := []string{"a", "b.txt", "c d", "..x"}
	zzTree = nil
	n := vChoose("nodes", vParam("NODES")+1)
	for i := 0; i < n; i++ {
		seg := segs[vChoose("seg", len(segs))]
		var nd zzNode
		switch vChoose("kind", 3) {
		case 0:
			nd = zzNode{base + "/" + seg, false}
		case 1:
			nd = zzNode{base + "/" + seg, true}
		case 2:
			nd = zzNode{base + "/sub/" + seg, false}
		}
		for _, o := range zzTree {
			if o.path == nd.path {
				vAssume(false) // a tree has no two nodes with the same path
			}
		}
		zzTree = append(zzTree, nd)
	}
	recursive := vChoose("recursive", 2) == 1
	useFilter := vChoose("filter", 2) == 1
	admitted := map[string]bool{}
	var filter func(string) bool
	if useFilter {
		filter = func(p string) bool {
			ok := vChoose("admit", 2) == 1
			admitted[p] = ok
			return ok
		}
	}
	zzZipped = nil
	err := ZipFolder(srcDir, "/tmp/out.zip", filter, recursive)
	vReach("zipped")
	vAssert(err == nil, "ZipFolder failed on a readable tree")
	// expected entries, in walk order
	var want []string
	for _, nd := range zzTree {
		if nd.isDir {
			continue
		}
		if useFilter {
			if ok, asked := admitted[nd.path]; asked && !ok {
				continue
			}
		}
		depth2 := len(nd.path) > len(base)+5 && nd.path[:len(base)+5] == base+"/sub/"
		if !recursive && depth2 {
			continue
		}
		want = append(want, nd.path[len(base):])
	}
	vAssert(len(zzZipped) == len(want), "ZipFolder archived a different number of files than filter and recursive flag select")
	for i := range want {
		vAssert(zzZipped[i] == want[i], "ZipFolder entry name is not the path relative to the source directory")
	}
	// and back: every such entry is extracted to destDir + relative path
	zzEntries = nil
	for _, nm := range zzZipped {
		zzEntries = append(zzEntries, &zip.File{FileHeader: zip.FileHeader{Name: nm}})
	}
	zzMade, zzCreated = nil, nil
	vAssert(UnzipToFolder("/tmp/out.zip", "/d") == nil, "UnzipToFolder failed on an archive written by ZipFolder")
	vAssert(len(zzCreated) == len(want), "UnzipToFolder extracted a different number of files")
	for i := range want {
		vAssert(zzCreated[i] == "/d"+want[i], "UnzipToFolder did not reproduce the relative path")
	}
}
