//go:build verif

package iterable

// C18: the mixer is a faithful two-way merge.

type zzSelCall struct {
	x, y int
	ans  bool
}

// any selector (its answers are fresh symbolic booleans), any call script over HasNext/Next/Reset
func zzC18Script() {
	L := vParam("L")
	n1 := vConcrete(vRange("n1", 0, L))
	n2 := vConcrete(vRange("n2", 0, L))
	a := make([]int, n1)
	for i := range a {
		a[i] = vInt("a")
	}
	b := make([]int, n2)
	for i := range b {
		b[i] = vInt("b")
	}
	var log []zzSelCall
	sel := func(x, y int) bool {
		ans := vBool("sel")
		log = append(log, zzSelCall{x, y, ans})
		return ans
	}
	var m Mixer[int]
	m.Init(sel, WrapIntSlice(a), WrapIntSlice(b))
	p1, p2, cached, seen := 0, 0, 0, 0
	// refSelect mirrors what a faithful merge must decide next, consuming the logged selector answer
	refSelect := func() {
		if cached != 0 {
			vAssert(len(log) == seen, "selector consulted although the decision was already made")
			return
		}
		switch {
		case p1 < n1 && p2 < n2:
			vAssert(len(log) == seen+1, "selector not consulted exactly once with both heads present")
			c := log[seen]
			seen++
			vAssert(c.x == a[p1] && c.y == b[p2], "selector called with values other than the two heads")
			if c.ans {
				cached = 1
			} else {
				cached = 2
			}
		case p1 < n1:
			vAssert(len(log) == seen, "selector consulted with the second input exhausted")
			cached = 1
		case p2 < n2:
			vAssert(len(log) == seen, "selector consulted with the first input exhausted")
			cached = 2
		default:
			vAssert(len(log) == seen, "selector consulted with both inputs exhausted")
			cached = 3
		}
	}
	D := vParam("D")
	for s := 0; s < D; s++ {
		switch vChoose("op", 3) {
		case 0:
			got := m.HasNext()
			refSelect()
			vAssert(got == (cached != 3), "HasNext disagrees with the reference merge")
		case 1:
			v, ok := m.Next()
			refSelect()
			switch cached {
			case 1:
				vAssert(ok && v == a[p1], "Next did not emit the first input's head")
				p1++
				cached = 0
			case 2:
				vAssert(ok && v == b[p2], "Next did not emit the second input's head")
				p2++
				cached = 0
			default:
				vAssert(!ok && v == 0, "Next returned an element after both inputs were exhausted")
			}
		case 2:
			err := m.Reset()
			vAssert(err == nil, "Reset failed although both inputs can be reset")
			vAssert(len(log) == seen, "Reset consulted the selector")
			p1, p2, cached = 0, 0, 0
		}
	}
	vReach("script-done")
}

// sorted inputs under <= merge into one sorted output containing every element exactly once
func zzC18Sorted() {
	L := vParam("LS")
	n1 := vConcrete(vRange("n1", 0, L))
	n2 := vConcrete(vRange("n2", 0, L))
	a := make([]int, n1)
	for i := range a {
		a[i] = vInt("a")
		if i > 0 {
			vAssume(a[i-1] <= a[i])
		}
	}
	b := make([]int, n2)
	for i := range b {
		b[i] = vInt("b")
		if i > 0 {
			vAssume(b[i-1] <= b[i])
		}
	}
	var m Mixer[int]
	m.Init(func(x, y int) bool { return x <= y }, WrapIntSlice(a), WrapIntSlice(b))
	p1, p2 := 0, 0
	prev, havePrev := 0, false
	for k := 0; k < n1+n2; k++ {
		if vBool("callHasNext") {
			vAssert(m.HasNext(), "HasNext false before all elements were emitted")
		}
		v, ok := m.Next()
		vAssert(ok, "Next stopped before all elements were emitted")
		if havePrev {
			vAssert(prev <= v, "output of sorted inputs is not sorted")
		}
		prev, havePrev = v, true
		// the element comes from the head of one of the inputs, in their own order
		if p1 < n1 && (p2 >= n2 || a[p1] <= b[p2]) {
			vAssert(v == a[p1], "expected the first input's head")
			p1++
		} else {
			vAssert(v == b[p2], "expected the second input's head")
			p2++
		}
	}
	vAssert(!m.HasNext(), "HasNext true after all elements were emitted")
	_, ok := m.Next()
	vAssert(!ok, "Next returned more elements than the inputs hold")
	vReach("script-done")
}
