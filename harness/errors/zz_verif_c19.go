//go:build verif

package errors

import (
	"encoding/json"
	"fmt"
	"io"

	"google.golang.org/grpc/codes"
	"google.golang.org/grpc/status"
)

// C19: error classes survive wrapping and the gRPC boundary.
// Contract stubs for google.golang.org/grpc/status (the real package is protobuf/reflection code):
//   status.Error(c,msg) = nil for OK, otherwise a status error (c,msg);
//   status.Code(err)    = OK for nil, the code of a status error found in err's chain, Unknown otherwise;
//   status.FromError    = the same lookup, message = err.Error() for a wrapped status error.

type zzStatusErr struct {
	code codes.Code
	msg  string
}

func (e *zzStatusErr) Error() string {
	return "rpc error: code = " + e.code.String() + " desc = " + e.msg
}

func zzFindStatus(err error) (*zzStatusErr, bool) {
	direct := true
	for err != nil {
		if se, ok := err.(*zzStatusErr); ok {
			return se, direct
		}
		u, ok := err.(interface{ Unwrap() error })
		if !ok {
			return nil, false
		}
		err = u.Unwrap()
		direct = false
	}
	return nil, false
}

func zzStatusError(c codes.Code, msg string) error {
	if c == codes.OK {
		return nil
	}
	return &zzStatusErr{c, msg}
}

func zzStatusCode(err error) codes.Code {
	if err == nil {
		return codes.OK
	}
	if se, _ := zzFindStatus(err); se != nil {
		return se.code
	}
	return codes.Unknown
}

var zzStatusMsgs = map[*status.Status]string{}

func zzStatusFromError(err error) (*status.Status, bool) {
	if err == nil {
		return nil, true
	}
	st := new(status.Status)
	if se, direct := zzFindStatus(err); se != nil {
		if direct {
			zzStatusMsgs[st] = se.msg
		} else {
			zzStatusMsgs[st] = err.Error()
		}
		return st, true
	}
	zzStatusMsgs[st] = err.Error()
	return st, false
}

func zzStatusMessage(s *status.Status) string {
	if s == nil {
		return ""
	}
	return zzStatusMsgs[s]
}

func zzCodeString(c codes.Code) string { return "code" }

type zzObj struct {
	A int    `json:"a"`
	P string `json:"p"`
}

const zzObjJSON = `{"a":7,"p":"100%"}`

// zzBad stands for a value encoding/json cannot marshal (NaN, chan, func)
type zzBad chan int

func zzJSONMarshal(v any) ([]byte, error) {
	if _, bad := v.(zzBad); bad {
		return nil, fmt.Errorf("json: unsupported value")
	}
	return []byte(zzObjJSON), nil
}

// the streaming API of encoding/json, should EmbedObject be written with it: same fixed-object model
var zzEncW = map[*json.Encoder]io.Writer{}

func zzJSONNewEncoder(w io.Writer) *json.Encoder {
	enc := new(json.Encoder)
	zzEncW[enc] = w
	return enc
}

func zzJSONEncode(enc *json.Encoder, v any) error {
	b, err := zzJSONMarshal(v)
	if err != nil {
		return err
	}
	_, err = zzEncW[enc].Write(append(b, '\n'))
	return err
}
func zzJSONUnmarshal(data []byte, v any) error {
	if string(data) != zzObjJSON {
		return fmt.Errorf("bad json")
	}
	if o, ok := v.(*zzObj); ok {
		o.A = 7
		o.P = "100%"
	}
	return nil
}

var zzUnrelated = fmt.Errorf("an unrelated failure")

var zzClasses = []error{ErrExist, ErrNotExist, ErrClosed, ErrInvalid, ErrNotAuthorized, ErrDataLoss,
	ErrCommunication, ErrInternal, ErrConflict, ErrExhausted, ErrUnimplemented, ErrCanceled}

func zzIsClass(e error) bool {
	for _, c := range zzClasses {
		if e == c {
			return true
		}
	}
	return false
}

func zzC19Wrap() {
	ci := vChoose("class", len(zzClasses))
	class := zzClasses[ci]
	_, hasCode := errorsToCode[class]
	vAssume(hasCode)
	depth := vChoose("depth", 5)
	embed := vBool("embed")
	if vBool("failedEmbedBefore") {
		// an earlier embedding of an unmarshalable value (whatever it returns) leaves nothing behind that
		// would spoil the embeddings that follow
		vAssert(EmbedObject(zzBad(nil), zzUnrelated) != nil, "EmbedObject of an unmarshalable value lost the error")
	}
	e := class
	for i := 0; i < depth; i++ {
		if embed && i == depth/2 {
			e = EmbedObject(&zzObj{A: 7, P: "100%"}, e)
			continue
		}
		switch vChoose("wrapKind", 3) {
		case 0:
			e = fmt.Errorf("layer %d: %w", i, e)
		case 1:
			e = fmt.Errorf("layer %d (100%% sure): %w", i, e)
		case 2:
			// two %w verbs: the class is reachable only through Unwrap() []error
			e = fmt.Errorf("layer %d: %w after %w", i, e, zzUnrelated)
		}
	}
	if embed && depth == 0 {
		e = EmbedObject(&zzObj{A: 7, P: "100%"}, e)
	}
	w := GRPCWrap(e)
	vReach("wrapped")
	vAssert(w != nil, "GRPCWrap of a non-nil error is nil")
	vAssert(Is(w, class), "Is(GRPCWrap(err), class) is false")
	oi := vChoose("other", len(zzClasses))
	if oi != ci {
		vAssert(!Is(w, zzClasses[oi]), "Is(GRPCWrap(err), other class) is true")
	}
	vAssert(GRPCWrap(w) == w, "GRPCWrap is not idempotent")
	vAssert(FromGRPCErrorMsg(w) == e.Error(), "GRPCWrap changed the message text")
	if embed {
		var o zzObj
		vAssert(ExtractObject(w, &o) && o.A == 7, "embedded object not extractable after GRPCWrap")
	}
	vAssert(GRPCStatusCode(w) == errorsToCode[class], "status code of the wrapped error is not the class's code")
	vAssert(FromGRPCError(w) == class, "FromGRPCError(GRPCWrap(err)) is another class")
}

func zzC19Codes() {
	g := codes.Code(vRange("code", 0, 16))
	g = codes.Code(vConcrete(int(g)))
	err := status.Error(g, "some message: with colon {\"json\":1}")
	back := FromGRPCError(err)
	vReach("code-mapped")
	if g == codes.OK {
		vAssert(err == nil && back == nil, "OK must map to nil")
	} else {
		vAssert(back != nil, "a non-OK code maps to nil")
		vAssert(zzIsClass(back), "a gRPC code maps to something that is not one of the general classes")
		vAssert(Is(err, back), "Is(status error, its class) is false")
	}
	// table consistency: class -> code -> class
	for _, c := range zzClasses {
		if code, ok := errorsToCode[c]; ok {
			vAssert(FromGRPCError(status.Error(code, "x")) == c, "class -> code -> class is not the identity")
		}
	}
}
