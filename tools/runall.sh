#!/bin/bash
# runs every registered check on the current tree (quick by default) and prints one line each
TIER=${1:-quick}
cd /verif
for c in $(python3 -c "import json;print(' '.join(x['property_id'] for x in json.load(open('MANIFEST.json'))['checks']))"); do
  S=$(date +%s); OUT=$(bin/gosx check $c --tier $TIER 2>&1); RC=$?; E=$(( $(date +%s) - S ))
  echo "$c exit=$RC ${E}s $(echo "$OUT" | tail -1 | cut -c1-160)"
  [ $RC -ne 0 ] && echo "$OUT" | grep -E "VIOLATION|INCONCLUSIVE|violation in" | head -5 | cut -c1-250
done
