#!/usr/bin/env python3
"""Prints, per check, the thorough-tier parameters of every entry next to the quick ones (for DESIGN.md section 0.8)."""
import glob, json
for f in sorted(glob.glob('/verif/checks/C*.json')):
    d = json.load(open(f))
    for u in d['units']:
        for e in u['entries']:
            q, t = e.get('quick', {}), e.get('thorough', {})
            diff = {k: (q.get(k), v) for k, v in t.items() if q.get(k) != v}
            pq, pt = e.get('preemptions_quick', e.get('preemptions')), e.get('preemptions')
            if pq != pt:
                diff['preemptions'] = (pq, pt)
            tag = ' (thorough only)' if e.get('thorough_only') else ''
            if diff or tag:
                print(f"{d.get('id', f[-8:-5])} {e['func']}{tag}: " + ', '.join(f"{k} {a}->{b}" for k, (a, b) in diff.items()))
